"""C12 — string pool: class table agreement, conservation by construction, class-checked release, ownership of release."""
import struct

import re
from ..guards import cmp_facts, ne, sh
from ..mir import parent_fn
from ..panics import label_names
from ..tables import peval

P = "arena::pool::"


def const_u32s(ctx, name):
    c = ctx.lib.consts.get(name)
    if not c or "bytes" not in c:
        return None
    b = bytes.fromhex(c["bytes"])
    return list(struct.unpack("<%dI" % (len(b) // 4), b))


def r1_class_table(ctx):
    sizes = const_u32s(ctx, P + "SLOT_SIZES")
    counts = const_u32s(ctx, P + "SLOT_COUNTS")
    ccount = const_u32s(ctx, P + "CLASS_COUNT")
    sc = ctx.need(P + "size_class")
    ctx.touch(sc)
    if not sizes or not counts or not ccount:
        ctx.bad("consts-missing", sc.where(), "cannot evaluate SLOT_SIZES / SLOT_COUNTS / CLASS_COUNT")
        return
    if len(sizes) == ccount[0] == len(counts):
        ctx.ok("table|lengths", sc.where(), "%d classes" % ccount[0])
    else:
        ctx.bad("table|lengths", sc.where(), "SLOT_SIZES has %d entries, SLOT_COUNTS %d, CLASS_COUNT %d" % (len(sizes), len(counts), ccount[0]))
    if all(b > a for a, b in zip(sizes, sizes[1:])) and all(s % 8 == 0 and s > 0 for s in sizes) and all(c > 0 for c in counts):
        ctx.ok("table|monotone-aligned", sc.where(), "strictly increasing multiples of 8, positive counts")
    else:
        ctx.bad("table|monotone-aligned", sc.where(), "SLOT_SIZES must be strictly increasing positive multiples of 8: %s" % sizes)
    # derive the reader's constants from the writer's table
    d1 = sizes[1] - sizes[0]
    k = next((i for i in range(len(sizes) - 1) if sizes[i + 1] - sizes[i] != d1), len(sizes) - 1)
    d2 = sizes[k + 1] - sizes[k] if k + 1 < len(sizes) else d1
    regular = sizes[0] == d1 and all(sizes[i + 1] - sizes[i] == d1 for i in range(k)) and all(sizes[i + 1] - sizes[i] == d2 for i in range(k, len(sizes) - 1))
    if not regular:
        ctx.bad("table|two-spacings", sc.where(), "SLOT_SIZES is not two arithmetic runs (spacing %d up to class %d, then %d): size_class's closed form cannot match it" % (d1, k, d2))
        return
    want = {"le1": sizes[k], "div1": d1, "sub1": 1, "le2": sizes[-1], "sub2": sizes[k] + 1, "div2": d2, "base": k + 1}
    got = {}
    les = []
    for b in sorted(sc.live):
        for s in sc.blocks[b]["s"]:
            rv = s["rv"]
            if rv["k"] != "bin":
                continue
            c = rv["b"].get("int") if isinstance(rv["b"], dict) else None
            a = rv["a"].get("int") if isinstance(rv["a"], dict) else None
            if rv["op"] in ("Le", "Lt", "Ge", "Gt") and c is not None:
                les.append((rv["op"], c, b))
            if rv["op"] == "Div" and c is not None:
                got.setdefault("divs", []).append(c)
            if rv["op"] in ("Sub", "SubWithOverflow") and c is not None:
                got.setdefault("subs", []).append(c)
            if rv["op"] in ("Add", "AddWithOverflow") and (a is not None or c is not None):
                got.setdefault("adds", []).append(a if a is not None else c)
    for c in sc.calls():
        if (c.callee or "").endswith("saturating_sub"):
            got.setdefault("subs", []).append(c.args[1].get("int"))
    les.sort(key=lambda x: x[2])
    # the two boundaries, however they are spelled: `n <= T` (if-chain) or the ends of range patterns `lo..=T` / `T+1..=hi`
    # (a match), i.e. a comparison of n with T by <= / >, or with T + 1 by < / >=.  A lower end 0 of an unsigned range is no
    # boundary.
    def boundary(T):
        return [(op, c) for (op, c, _b) in les if (c == T and op in ("Le", "Gt")) or (c == T + 1 and op in ("Lt", "Ge"))]
    others = sorted({c for (op, c, _b) in les if c not in (0, want["le1"], want["le1"] + 1, want["le2"], want["le2"] + 1)})
    b1, b2 = boundary(want["le1"]), boundary(want["le2"])
    checks = [
        ("threshold-1", [want["le1"]] if b1 and not others else sorted({c for (_o, c, _b) in les})[:2], [want["le1"]], "first run ends at SLOT_SIZES[%d]" % k),
        ("threshold-2", [want["le2"]] if b2 and not others else sorted({c for (_o, c, _b) in les})[-2:], [want["le2"]], "largest pooled size is SLOT_SIZES[last]"),
        ("operators", ["Le", "Le"] if b1 and b2 and all((op, c) in b1 + b2 or c in (0, want["le1"] + 1) for (op, c, _b) in les) else [x[0] for x in les], ["Le", "Le"], "both tests are n <= threshold"),
        ("divisors", sorted(got.get("divs", [])), sorted([want["div1"], want["div2"]]), "the two spacings of the table"),
        ("offsets", sorted(got.get("subs", [])), sorted([want["sub1"], want["sub2"]]), "n-1 in the first run, n-(SLOT_SIZES[%d]+1) in the second" % k),
        ("base-class", got.get("adds", []), [want["base"]], "index of the first class of the second run"),
    ]
    for name, have, expect, why in checks:
        if have == expect:
            ctx.ok("size_class|%s" % name, sc.where(), "%s = %s (%s)" % (name, have, why))
        else:
            ctx.bad("size_class|%s|%s" % (name, have), sc.where(), "size_class uses %s for %s but the class table implies %s (%s): requests near the boundary map to a class whose slots are too small or are never recycled" % (have, name, expect, why))
    # PoolSet::new builds pool i from SLOT_SIZES[i], SLOT_COUNTS[i]
    clo = ctx.lib.fns.get(P + "PoolSet::new::{closure#0}")
    if clo is None:
        ctx.bad("poolset-new|closure", ctx.need(P + "PoolSet::new").where(), "PoolSet::new no longer builds the pools from the tables")
    else:
        ctx.touch(clo)
        pn = [c for c in clo.calls() if c.callee == P + "Pool::new"]
        ok = False
        if pn:
            a1 = sh(ne(clo.deep(pn[0].args[1])))
            a2 = sh(ne(clo.deep(pn[0].args[2])))
            ok = "SLOT_SIZES[i]" in a1.replace(" ", "") and "SLOT_COUNTS[i]" in a2.replace(" ", "")
            detail = "%s / %s" % (a1, a2)
        if ok:
            ctx.ok("poolset-new|tables", clo.where(), "Pool::new(arena, SLOT_SIZES[i], SLOT_COUNTS[i])")
        else:
            ctx.bad("poolset-new|tables", clo.where(), "pool i is not built from SLOT_SIZES[i] and SLOT_COUNTS[i] (%s)" % (detail if pn else "no Pool::new call"))


def r1b_backing_sizes(ctx):
    """The arena blocks behind a pool are sized for what is stored in them."""
    fl = ctx.need(P + "FreeList::new")
    ctx.touch(fl)
    la = [c for c in fl.calls() if (c.callee or "").endswith("from_size_align")]
    if la:
        size = sh(ne(fl.deep(la[0].args[0]))).replace(" ", "")
        gargs = [" ".join(c.gargs) for c in fl.calls() if (c.callee or "").endswith("size_of")]
        if size in ("Mul(capacity,size_of())", "Mul(size_of(),capacity)") and all("u32" in g for g in gargs):
            ctx.ok("freelist|index-array-size", fl.where(la[0].block), "capacity * size_of::<u32>() bytes for capacity u32 indices")
        else:
            ctx.bad("freelist|index-array-size|%s" % size[:30], fl.where(la[0].block), "the free list's index array is laid out with `%s` bytes for `capacity` u32 entries: pushes beyond that write slot indices into the neighbouring pool block (a live buffer of another class is overwritten)" % size)
    else:
        ctx.bad("freelist|no-layout", fl.where(), "FreeList::new no longer computes a layout")
    cap_field = None
    for b in sorted(fl.live):
        for s in fl.blocks[b]["s"]:
            if s["rv"]["k"] == "agg" and s["rv"]["adt"].endswith("FreeList"):
                fields = ctx.lib.fields(P + "FreeList")
                vals = dict(zip(fields, [sh(ne(fl.deep(o))) for o in s["rv"]["ops"]]))
                cap_field = vals.get("capacity")
    if cap_field == "capacity":
        ctx.ok("freelist|capacity-field", fl.where(), "capacity field = number of entries allocated")
    else:
        ctx.bad("freelist|capacity-field", fl.where(), "FreeList.capacity is `%s`" % cap_field)
    sb = ctx.need(P + "SlotBlock::new")
    ctx.touch(sb)
    la = [c for c in sb.calls() if (c.callee or "").endswith("from_size_align")]
    if la and sh(ne(sb.deep(la[0].args[0]))).replace(" ", "") in ("Mul(slot_size,slot_count)", "Mul(slot_count,slot_size)") and la[0].args[1].get("int") == 8:
        ctx.ok("slotblock|size", sb.where(la[0].block), "slot_size * slot_count bytes, 8-aligned")
    else:
        ctx.bad("slotblock|size", sb.where(), "SlotBlock::new lays out `%s`" % (sh(ne(sb.deep(la[0].args[0]))) if la else "?"))
    pn = ctx.need(P + "Pool::new")
    ctx.touch(pn)
    fnew = [c for c in pn.calls() if c.callee == P + "FreeList::new"]
    if fnew and sh(ne(pn.deep(fnew[0].args[1]))) == "slot_count":
        ctx.ok("pool|freelist-capacity", pn.where(fnew[0].block), "free list holds slot_count indices (every slot can be free at once)")
    else:
        ctx.bad("pool|freelist-capacity", pn.where(), "the free list is created for `%s` entries, not for slot_count" % (sh(ne(pn.deep(fnew[0].args[1]))) if fnew else "?"))


def sets_of(p, field):
    return [e for e in p["events"] if e[0] == "call" and e[1].endswith("Cell::set") and field in e[3][0]]


def r2_conservation(ctx):
    pa = ctx.need(P + "Pool::alloc")
    ctx.touch(pa)
    paths = [p for p in peval(pa, 0, {}) if p["end"] == "return"]
    some = [p for p in paths if any(e[0] == "agg" and e[2] == "Some" and e[1].endswith("Option") for e in p["events"])]
    none = [p for p in paths if p not in some]
    n = 0
    for p in some:
        n += 1
        live = sets_of(p, "live_count")
        bump = sets_of(p, "bump")
        popped = any(e[0] == "call" and e[1].endswith("FreeList::pop") for e in p["events"])
        # which source: the pop result decided Some/None by a fork; identify by slot_ptr argument
        sp = [e for e in p["events"] if e[0] == "call" and e[1].endswith("slot_ptr")]
        src = "recycled" if sp and "index" in sp[0][3][1] else "virgin" if bump else "?"
        ok = len(live) == 1 and "Add(" in live[0][3][1] and "1_u32" in live[0][3][1] and ((src == "recycled" and not bump) or (src == "virgin" and len(bump) == 1 and "Add(bump, 1_u32)" in bump[0][3][1]))
        if ok:
            ctx.ok("alloc|path#%d|%s" % (n, src), pa.where(p["block"]), "one source (%s), live_count += 1 once" % src)
        else:
            ctx.bad("alloc|path#%d|%s" % (n, src), pa.where(p["block"]), "a Some path of Pool::alloc updates the counters %s / %s: live + free + virgin would no longer equal the capacity" % ([e[3] for e in live], [e[3] for e in bump]))
    for p in none:
        if sets_of(p, "live_count") or sets_of(p, "bump"):
            ctx.bad("alloc|none-path-writes", pa.where(p["block"]), "the exhausted path of Pool::alloc changes a counter")
    ctx.floor("Some paths of Pool::alloc", n, 2)
    # virgin allocation only under bump < slot_count
    for c in pa.calls():
        if (c.callee or "").endswith("Cell::set") and "bump" in sh(ne(pa.deep(c.args[0]))):
            facts = cmp_facts(pa, c.block)
            if any(op == "Lt" and "bump" in sh(a) and "slot_count" in sh(b) for op, a, b, S in facts):
                ctx.ok("alloc|virgin-bound", pa.where(c.block), "bump advanced only under bump < slot_count")
            else:
                ctx.bad("alloc|virgin-bound", pa.where(c.block), "the virgin cursor is advanced without `bump < slot_count` (%s): a slot beyond the block is handed out" % [(o, sh(a), sh(b)) for o, a, b, S in facts])
    pd = ctx.need(P + "Pool::dealloc")
    ctx.touch(pd)
    dpaths = [p for p in peval(pd, 0, {}) if p["end"] == "return"]
    n = 0
    for p in dpaths:
        n += 1
        live = sets_of(p, "live_count")
        pushes = [e for e in p["events"] if e[0] == "call" and e[1].endswith("FreeList::push")]
        if len(live) == 1 and "Sub(" in live[0][3][1] and len(pushes) == 1 and "index" in pushes[0][3][1]:
            ctx.ok("dealloc|path#%d" % n, pd.where(p["block"]), "free.push(index) once, live_count -= 1 once")
        else:
            ctx.bad("dealloc|path#%d" % n, pd.where(p["block"]), "a path of Pool::dealloc performs %d free-list pushes and %d live_count updates" % (len(pushes), len(live)))
    ctx.floor("return paths of Pool::dealloc", n, 1)
    fp = ctx.need(P + "FreeList::pop")
    ctx.touch(fp)
    for p in [p for p in peval(fp, 0, {}) if p["end"] == "return"]:
        some_ = any(e[0] == "agg" and e[2] == "Some" for e in p["events"])
        sets = sets_of(p, "len")
        if some_ == (len(sets) == 1):
            ctx.ok("freelist-pop|%s" % ("some" if some_ else "none"), fp.where(p["block"]), "len decremented iff a slot is returned")
        else:
            ctx.bad("freelist-pop|%s" % ("some" if some_ else "none"), fp.where(p["block"]), "FreeList::pop %s a slot but writes len %d times" % ("returns" if some_ else "returns no", len(sets)))
    fpu = ctx.need(P + "FreeList::push")
    ctx.touch(fpu)
    sets = [c for c in fpu.calls() if (c.callee or "").endswith("Cell::set")]
    wr = [c for c in fpu.calls() if (c.callee or "").endswith("::write")]
    if len(sets) == 1 and sh(ne(fpu.deep(sets[0].args[1]))).replace(" ", "") == "Add(get(self.len),1)" and wr and "get(self.len)" in sh(ne(fpu.deep(wr[0].args[0]))) and sh(ne(fpu.deep(wr[0].args[1]))) == "index":
        ctx.ok("freelist-push", fpu.where(), "indices[len] = index; len += 1")
    else:
        ctx.bad("freelist-push", fpu.where(), "FreeList::push no longer stores at indices[len] and increments len once")


def r3_class_checked_release(ctx):
    for fid in (P + "PoolSet::alloc", P + "PoolSet::dealloc"):
        fn = ctx.need(fid)
        ctx.touch(fn)
        scs = fn.calls_to(P + "size_class")
        if len(scs) == 1 and sh(ne(fn.deep(scs[0].args[0]))) == "size":
            ctx.ok("%s|class-from-size" % fid.split("::")[-1], fn.where(scs[0].block), "size_class(size)")
        else:
            ctx.bad("%s|class-from-size" % fid.split("::")[-1], fn.where(), "%s does not derive the class from size_class(size)" % fid)
    # allocation and release pick the pool by the very class size_class(size) returned: a slot taken from any other class
    # can never find its way back (release recomputes the class from the size)
    for fid in (P + "PoolSet::alloc", P + "PoolSet::dealloc"):
        fn = ctx.need(fid)
        for c in fn.calls():
            if c.callee in (P + "Pool::alloc", P + "Pool::dealloc", P + "Pool::contains"):
                recv = sh(ne(fn.deep(c.args[0]))).replace(" ", "")
                key = "%s|%s|pool-index" % (fid.split("::")[-1], c.callee.split("::")[-1])
                if recv == "self.pools[size_class(size)@Some.0]":
                    ordn = sum(1 for r in ctx.records if r["rule"] == ctx.rule and r["instance"].split("#")[0] == key)
                    ctx.ok("%s#%d" % (key, ordn + 1), fn.where(c.block), "pools[size_class(size)]")
                else:
                    ctx.bad("%s|%s" % (key, recv[:40]), fn.where(c.block), "%s uses pool `%s`, not pools[size_class(size)]: alloc and release no longer agree on the class of a buffer" % (fid.split("::")[-1], recv[:60]))
    pd = ctx.need(P + "PoolSet::dealloc")
    for c in pd.calls_to(P + "Pool::dealloc"):
        ok = False
        for S, al in pd.constraints(c.block):
            si = pd.switch_info(S)
            if si["kind"] == "call" and si["callee"] == P + "Pool::contains" and 0 not in al:
                # same pool index as the dealloc
                a = sh(ne(pd.deep(si["call"]["args"][0])))
                b = sh(ne(pd.deep(c.args[0])))
                ok = a == b and "size_class" in a
        if ok:
            ctx.ok("dealloc|contains-checked", pd.where(c.block), "Pool::dealloc only when pools[class].contains(ptr)")
        else:
            ctx.bad("dealloc|contains-checked", pd.where(c.block), "a buffer is released into a pool without `pools[class].contains(ptr)` on the same class: an arena-fallback buffer would enter the free list")
    # what is taken under a condition is given back under the same condition: besides "the class exists" (both) and "the
    # pointer lies in that class" (release), no test on the request decides whether the per-class routine is reached
    for fid, callee, allowed in ((P + "PoolSet::alloc", P + "Pool::alloc", ("discr(size_class(size))",)),
                                 (P + "PoolSet::dealloc", P + "Pool::dealloc", ("discr(size_class(size))", "contains(self.pools[size_class(size)@Some.0],"))):
        fn = ctx.need(fid)
        for c in fn.calls_to(callee):
            extra = []
            for S, al in fn.constraints(c.block):
                si = fn.switch_info(S)
                if si["kind"] not in ("discr", "call", "bin", "multi", "place", "un"):
                    continue
                d = sh(ne(fn.deep(fn.blocks[S]["t"]["d"]))).replace(" ", "")
                if any(d.startswith(a.replace(" ", "")) for a in allowed):
                    continue
                extra.append(d[:50])
            key = "%s|reaches-class-routine" % fid.split("::")[-1]
            if extra:
                ctx.bad(key + "|extra-guard|%s" % extra[0][:30], fn.where(c.block), "%s reaches %s only under the additional test `%s`, which its counterpart does not make: a buffer for which the test fails is taken from a class but never returned to it (or returned without having been taken), so the class drains while nothing is live" % (fid.split("::")[-1], callee.split("::")[-1], extra[0]))
            else:
                ctx.ok(key, fn.where(c.block), "reached exactly when the class exists%s" % (" and owns the pointer" if "dealloc" in fid else ""))
    pa = ctx.need(P + "PoolSet::alloc")
    fall = [c for c in pa.calls() if (c.callee or "").endswith("Allocator>::allocate")]
    for c in fall:
        # reached only when size_class is None or the class pool returned None
        nones = 0
        r = pa.reach([0], removed_edges=[(S, lab) for S in pa.live if pa.blocks[S]["t"]["k"] == "switch" for si in [pa.switch_info(S)] if si["kind"] == "discr" and si["ty"].endswith("Option") for lab, _ in pa.succ[S] if label_names(pa, S, [lab], si) == {"None"}])
        if c.block not in r:
            ctx.ok("alloc|fallback-only-on-none", pa.where(c.block), "arena fallback only on size_class == None or pool exhausted")
        else:
            ctx.bad("alloc|fallback-only-on-none", pa.where(c.block), "the arena fallback can be taken although a pool slot was obtained")
    # alloc_str: capacity == len so that release computes the same class
    fr = ctx.need("arena::string::ArenaString::from_raw_parts")
    ctx.touch(fr)
    vr = [c for c in fr.calls() if (c.callee or "").endswith("from_raw_parts_in")]
    if vr and sh(ne(fr.deep(vr[0].args[1]))) == sh(ne(fr.deep(vr[0].args[2]))) == "len":
        ctx.ok("alloc_str|capacity-is-len", fr.where(), "Vec::from_raw_parts_in(ptr, len, len, ..)")
    else:
        ctx.bad("alloc_str|capacity-is-len", fr.where(), "ArenaString::from_raw_parts no longer sets capacity == len: return_to_pool would compute a different class than alloc_str")
    asr = ctx.need(P + "PoolSet::alloc_str")
    ctx.touch(asr)
    al = asr.calls_to(P + "PoolSet::alloc")
    from ..linear import lin, show as lshow
    if al and lin(ne(asr.deep(al[0].args[1]))) == ({"len(s)": 1}, 0):
        ctx.ok("alloc_str|size-is-len", asr.where(), "alloc(s.len())")
    else:
        ctx.bad("alloc_str|size-is-len", asr.where(), "alloc_str requests `%s` bytes from the pool while the string records s.len() as its capacity: at a class boundary the slot comes from one class and is released towards another (the release is dropped and the slot is lost)" % (lshow(ne(asr.deep(al[0].args[1]))) if al else "?"))
    rtp = ctx.need("runtime::Value::return_to_pool")
    ctx.touch(rtp)
    dl = rtp.calls_to(P + "PoolSet::dealloc")
    if dl and lin(ne(rtp.deep(dl[0].args[2]))) in (({"capacity(s)": 1}, 0), ({"capacity(self@Str.0@Owned.0)": 1}, 0)) or (dl and re.match(r"^capacity\([^()]*\)$", sh(ne(rtp.deep(dl[0].args[2]))))):
        ok = any(si["kind"] == "call" and (si["callee"] or "").endswith("PoolSet::contains") and 0 not in al for S, al in rtp.constraints(dl[0].block) for si in [rtp.switch_info(S)])
        if ok:
            ctx.ok("return_to_pool|checked", rtp.where(), "dealloc(ptr, capacity) under pool.contains(ptr)")
        else:
            ctx.bad("return_to_pool|unchecked", rtp.where(), "return_to_pool releases without pool.contains(ptr)")
    else:
        ctx.bad("return_to_pool|size", rtp.where(), "return_to_pool does not pass the string's capacity as the released size")
    # only Owned strings are released
    ok = False
    for c in dl:
        cons = {(si["ty"].split("::")[-1], tuple(sorted(label_names(rtp, S, al, si)))) for S, al in rtp.constraints(c.block) for si in [rtp.switch_info(S)] if si["kind"] == "discr"}
        ok = ("Value", ("Str",)) in cons and ("ArenaCow", ("Owned",)) in cons
    if ok:
        ctx.ok("return_to_pool|owned-only", rtp.where(), "only Value::Str(ArenaCow::Owned(_)) releases a slot")
    else:
        ctx.bad("return_to_pool|owned-only", rtp.where(), "a borrowed alias can release the slot it points into (double free / exclusive ownership broken)")


def r4_who_releases(ctx):
    chain = {
        P + "Pool::dealloc": {P + "PoolSet::dealloc"},
        P + "PoolSet::dealloc": {"runtime::Value::return_to_pool"},
        "runtime::Value::return_to_pool": {"runtime::Runtime::pop_scope", "runtime::Runtime::overwrite_slot", "runtime::Runtime::assign_index"},
        P + "Pool::alloc": {P + "PoolSet::alloc"},
        P + "PoolSet::alloc": {P + "PoolSet::alloc_str"},
        # ... and pooled strings are made in two places: when a value is promoted into a variable / element, and when a
        # string argument is bound to a parameter.  Both store the result in a slot table that returns it (R2).
        P + "PoolSet::alloc_str": {"arena::cow::ArenaCow::promote", "runtime::Runtime::eval_function_call"},
    }
    for callee, who in chain.items():
        cs = ctx.lib.callers_of(callee)
        if not cs:
            ctx.bad("who|%s|none" % callee.split("::")[-1], "", "%s has no caller" % callee)
            continue
        bad = [c for c in cs if parent_fn(c.fn.id) not in who]
        if bad:
            ctx.bad("who|%s|%s" % (callee.split("::")[-2] + "::" + callee.split("::")[-1], parent_fn(bad[0].fn.id)), bad[0].fn.where(bad[0].block), "%s is called from %s, outside the audited release/alloc chain" % (callee, parent_fn(bad[0].fn.id)))
        else:
            ctx.ok("who|%s::%s" % (callee.split("::")[-2], callee.split("::")[-1]), cs[0].fn.where(cs[0].block), "callers: %s" % sorted({parent_fn(c.fn.id).split("::")[-1] for c in cs}))
    ps = ctx.lib.adts.get(P + "PoolSet")
    if ps and "pub(crate)" in ps["vis"] or ps and "Restricted" in ps["vis"]:
        ctx.ok("visibility|PoolSet", "src/arena/pool.rs", "PoolSet is crate-private (%s)" % ps["vis"])
    elif ps:
        ctx.bad("visibility|PoolSet", "src/arena/pool.rs", "PoolSet is visible outside the crate (%s)" % ps["vis"])
    # ownership test: contains == any(pool.contains)
    pc = ctx.need(P + "PoolSet::contains")
    ctx.touch(pc)
    if any((c.callee or "").endswith("::any") for c in pc.calls()) and any(c.callee == P + "Pool::contains" for k in ctx.lib.closures_of(P + "PoolSet::contains") for c in k.calls()):
        ctx.ok("contains|any-pool", pc.where(), "pools.iter().any(|p| p.contains(ptr))")
    else:
        ctx.bad("contains|any-pool", pc.where(), "PoolSet::contains no longer asks every pool")
    sbc = ctx.need(P + "SlotBlock::contains")
    ctx.touch(sbc)
    lt = [(s["rv"]["op"], sh(ne(sbc.deep(s["rv"]["a"]))), sh(ne(sbc.deep(s["rv"]["b"])))) for b in sbc.live for s in sbc.blocks[b]["s"] if s["rv"]["k"] == "bin" and s["rv"]["op"] in ("Lt", "Le", "Gt", "Ge")]
    if lt and lt[-1][0] == "Lt" and "wrapping_sub" in lt[-1][1] and "slot_size" in lt[-1][2] and "slot_count" in lt[-1][2]:
        ctx.ok("contains|half-open", sbc.where(), "offset < slot_size * slot_count")
    else:
        ctx.bad("contains|half-open|%s" % [x[0] for x in lt], sbc.where(), "SlotBlock::contains is not `offset < slot_size * slot_count` (%s): the one-past-the-end address would count as pooled" % lt)


def r5_slots_are_not_aliased_across_calls(ctx):
    """A slot is exclusively owned until it is returned - also at the level of the runtime: a string argument that merely
    borrows the caller's pool slot is given a slot of its own when it is bound to a parameter (under pool.contains), or the
    callee can overwrite the variable, the slot is handed out again, and the parameter reads another string (shared with
    C02-R1 / C05-R5)."""
    from .c02 import param_binding_rule
    param_binding_rule(ctx)


def r6_borrowers_are_cut_before_a_slot_goes_back(ctx):
    """`Exclusively owned until it is returned` seen from the pool's only client: a slot is returned when its variable is
    overwritten or its scope ends, so every value that leaves a variable's scope or is stored must have been cut loose from the
    slot first - promote / detach copy *every* string that borrows a pool slot (all sizes up to the largest class, strings
    nested in arrays at any depth), and no frame reset comes between a value and its copy.  Shared with C02-R4 / C02-R5."""
    from .c02 import r4_resets, r5_promotion_complete, r6_nothing_borrowed_is_held_across_recycling
    r4_resets(ctx)
    r5_promotion_complete(ctx)
    # ... and while an expression is being evaluated: a value that borrows a slot is not kept across a call that can return
    # that slot (C02-R6), or the slot is handed to another string while the kept value still reads it
    r6_nothing_borrowed_is_held_across_recycling(ctx)


def r7_fallback_memory_is_never_recycled(ctx):
    """A request the pool cannot serve from a slot falls back to fresh memory of the persistent arena, which is never taken
    back.  The one place where the runtime rewinds the persistent arena (a mark taken with offset(), work, reset(mark)) must
    therefore not allocate from the pool in between: a fallback block made there lies above the mark and the reset hands it out
    again while its string is live."""
    cg = ctx.lib.callgraph()
    reach_alloc = set()
    radj = {}
    for src, d in cg.items():
        for cal in d:
            radj.setdefault(parent_fn(cal), set()).add(parent_fn(src))
    st = [P + "PoolSet::alloc"]
    while st:
        x = st.pop()
        if x in reach_alloc:
            continue
        reach_alloc.add(x)
        st.extend(radj.get(x, ()))
    n = 0
    for fn in ctx.lib.fns.values():
        if fn.file != "src/runtime.rs":
            continue
        resets = [c for c in fn.calls() if (c.callee or "").endswith("Arena::reset")]
        marks = [c for c in fn.calls() if (c.callee or "").endswith("Arena::offset")]
        for r in resets:
            arena = sh(ne(fn.deep(r.args[0], 6))).replace(" ", "")
            if arena not in ("self.arena", "arena(self.pool)", "self.pool.arena"):
                continue        # the frame arena: the pool never allocates there
            mk = [m for m in marks if sh(ne(fn.deep(m.args[0], 6))).replace(" ", "") == arena and fn.dominates(m.block, r.block)]
            n += 1
            ctx.touch(fn)
            key = "persistent-rewind|%s" % parent_fn(fn.id).split("::")[-1]
            if not mk:
                ctx.bad(key + "|no-mark", fn.where(r.block), "the persistent arena is reset to a value that is not a mark taken in this function")
                continue
            between = set(fn.reach_from_succ(mk[-1].block)) & {b for b in fn.live if r.block in fn.reach([b])}
            offenders = [c for c in fn.calls() if c.block in between and c.block != r.block and c.callee and parent_fn(c.callee) in reach_alloc]
            if offenders:
                ctx.bad(key + "|pool-allocation|%s" % parent_fn(offenders[0].callee).split("::")[-1], fn.where(offenders[0].block), "%s calls %s between taking a mark on the persistent arena and resetting to it: when the pool falls back to arena memory (a string longer than the largest slot, or an exhausted class) the block lies above the mark and is recycled by the reset while still in use" % (parent_fn(fn.id).split("::")[-1], parent_fn(offenders[0].callee).split("::")[-1]))
            else:
                ctx.ok(key, fn.where(r.block), "no pool allocation between the mark and the reset")
    ctx.floor("rewinds of the persistent arena in the runtime", n, 1)


RULES = [("C12-R1", r1_class_table), ("C12-R1b", r1b_backing_sizes), ("C12-R2", r2_conservation), ("C12-R3", r3_class_checked_release), ("C12-R4", r4_who_releases), ("C12-R5", r5_slots_are_not_aliased_across_calls), ("C12-R6", r6_borrowers_are_cut_before_a_slot_goes_back), ("C12-R7", r7_fallback_memory_is_never_recycled)]

EXPLANATION = (
    "R1: the evaluated class table (SLOT_SIZES, SLOT_COUNTS, CLASS_COUNT) is checked for shape and every integer constant of "
    "size_class (thresholds, divisors, offsets, base class, comparison operators) is re-derived from it; PoolSet::new builds "
    "pool i from entry i of both tables. R2: conservation by construction - all acyclic paths of Pool::alloc, Pool::dealloc "
    "and FreeList::pop are enumerated and each performs exactly the counter updates that keep live + free + virgin constant; "
    "the virgin cursor advances only under bump < slot_count. R3: alloc and dealloc derive the class from size_class(size); "
    "Pool::dealloc only under pools[class].contains(ptr) on the same class; arena fallback only on None outcomes; capacity == "
    "len so release computes the allocating class; only owned strings release. R4: who-may-call chain of release and "
    "allocation, PoolSet crate-private, ownership test is a half-open range test over every pool. Not decided: exclusivity of "
    "live buffers over every history (follows from R2 plus LIFO reasoning, not checked), size_class values beyond the agreement "
    "of its constants with the table."
)
EXPLANATION += (
    " Added after a seeded change was missed: R3 PoolSet::alloc reaches Pool::alloc exactly when the class exists and PoolSet::dealloc reaches Pool::dealloc exactly when the class exists and owns the pointer - no further test on the request on either side (what is taken under a condition is given back under the same condition)."
)
EXPLANATION += (
    " R3 compares the size alloc_str asks of the pool and the size return_to_pool releases as values (linear normal form): both are the string's length / capacity, exactly. R5 (= C02-R1/C05-R5): a borrowed string argument gets a slot of its own under pool.contains when it is bound to a parameter."
)
ASSUMPTIONS = ["strings stored in slots are never grown in place (capacity stays equal to the allocated length)"]
TRUSTED = ["rustc const-eval of the tables", "nsx exporter", "nsverif path enumeration"]
NONTRIVIAL = "one obligation per constant, per enumerated path, per release-chain edge; distinct = distinct constant/path/edge"
EXPLANATION += (
    ' Round-5: R4 also restricts who calls PoolSet::alloc_str (promotion and parameter binding). R6 shares C02-R4/R5 (a slot goes back only after every borrower was cut loose: promote/detach copy every pool-borrowed string, at every size up to the largest class and at every array depth). R7: between taking a mark on the persistent arena and resetting to it, nothing that can reach PoolSet::alloc is called - a fallback block made there would be recycled while live.'
)
EXPLANATION += (
    ' Round 6: R6 also shares C02-R6 (nothing that borrows a slot is kept across a call that can return it).'
)

"""C06 — an accepted program never crashes the interpreter."""
import re
from ..guards import cmp_facts, ne, sh, upper_bound
from ..mir import parent_fn
from ..panics import collect_sites, label_names
from ..tables import mir_enum_table

ROOTS = ["runtime::Runtime::run", "runtime::Runtime::run_with_analysis"]
# the script-facing layer whose panic sites are judged; deeper layers (arena, pool, analysis tables)
# are counted in the evidence but their invariants are not decided by this rule
JUDGED_FILES = ("src/runtime.rs", "src/builtins/mod.rs", "src/builtins/array.rs", "src/builtins/number.rs",
                "src/builtins/process.rs", "src/builtins/string.rs", "src/process.rs")
INPUT_CLASSES = {"RT", "OP", "AST", "VAL"}

PARTITIONS = [
    # (mut dispatcher, plain dispatcher, enum short name, requires_mut_receiver impl)
    ("runtime::Runtime::eval_array_member_call_mut", "runtime::Runtime::eval_array_member_call", "ArrayBuiltin",
     "<builtins::array::ArrayBuiltin as builtins::Builtin>::requires_mut_receiver"),
    ("runtime::Runtime::eval_process_command_call_mut", "runtime::Runtime::eval_process_command_call", "ProcessCommandBuiltin",
     "<builtins::process::ProcessCommandBuiltin as builtins::Builtin>::requires_mut_receiver"),
]


def judged_bodies(ctx):
    reach = ctx.lib.reachable_from(ROOTS)
    out = []
    for fid in sorted(reach):
        if fid not in ctx.lib.fns:
            continue
        for fn in ctx.lib.family(fid):
            out.append(fn)
    return out


def site_key(st, ordinal):
    fnid = parent_fn(st.fn.id)
    return "%s|%s:%s|%s|#%d" % (fnid, st.kind, (st.callee or "?").split("::")[-1], st.signature(), ordinal)


def keyed_sites(ctx, bodies):
    out = []
    counts = {}
    for fn in bodies:
        for st in sorted(collect_sites(fn, ctx.lib), key=lambda s: s.block):
            base = (parent_fn(fn.id), st.kind, st.callee, st.signature())
            counts[base] = counts.get(base, 0) + 1
            out.append((st, site_key(st, counts[base])))
    return out


# --------------------------------------------------------------------------------------------- R7

def partition_facts(ctx):
    """For each dispatcher pair: the variant set on which each dispatcher can be entered."""
    res = {}
    emc = ctx.need("runtime::Runtime::eval_member_call")
    ctx.touch(emc)
    for mut_fn, plain_fn, enum, req in PARTITIONS:
        reqf = ctx.need(req)
        ctx.touch(reqf)
        tab = mir_enum_table(reqf)
        if tab is None:
            ctx.bad("R7|%s|table" % enum, reqf.where(), "cannot extract requires_mut_receiver table for %s" % enum)
            continue
        t_mut = {v for v, vals in tab.items() if vals == ["true"]}
        t_not = {v for v, vals in tab.items() if vals == ["false"]}
        if t_mut | t_not != set(tab):
            ctx.bad("R7|%s|table-nonconst" % enum, reqf.where(), "requires_mut_receiver is not a constant table: %s" % tab)
            continue
        # the _mut dispatcher is entered only on the true edge of requires_mut_receiver()
        mut_calls = emc.calls_to(mut_fn)
        plain_calls = emc.calls_to(plain_fn)
        ok_mut = bool(mut_calls)
        req_switches = []
        for S in sorted(emc.live):
            if emc.blocks[S]["t"]["k"] != "switch":
                continue
            si = emc.switch_info(S)
            if si["kind"] == "call" and si["callee"] == req:
                req_switches.append(S)
        for c in mut_calls:
            if not any(emc.edge_dominated(c.block, S, [lab for lab, _ in emc.succ[S] if lab != 0]) for S in req_switches):
                ok_mut = False
                ctx.bad("R7|%s|mut-dispatch-unguarded" % enum, emc.where(c.block),
                        "call of %s is not edge-dominated by requires_mut_receiver() == true" % mut_fn)
        # the plain dispatcher is reached only when the mutable route was not taken:
        # removing the true edges of the requires_mut switches must not disconnect it, removing the
        # false edges (and the None edge of the preceding from_name) must.
        ok_plain = bool(plain_calls)
        for c in plain_calls:
            removed = []
            for S in req_switches:
                removed += [(S, lab) for lab, _ in emc.succ[S] if lab == 0]
                # the Option switch that guards S (from_name(..) is None)
                for S0, al in emc.constraints(S):
                    si0 = emc.switch_info(S0)
                    if si0["kind"] == "discr" and si0["ty"].endswith("Option"):
                        removed += [(S0, lab) for lab, _ in emc.succ[S0] if lab not in al]
            if c.block in emc.reach([0], removed_edges=removed):
                ok_plain = False
                ctx.bad("R7|%s|plain-dispatch-bypass" % enum, emc.where(c.block),
                        "%s is reachable without passing the failed requires_mut_receiver()/from_name test" % plain_fn)
        res[mut_fn] = (enum, t_mut if ok_mut else None)
        res[plain_fn] = (enum, t_not if ok_plain else None)
        if ok_mut and ok_plain:
            ctx.ok("R7|%s|dispatch" % enum, emc.where(), "mut on {%s}, plain on {%s}" % (",".join(sorted(t_mut)), ",".join(sorted(t_not))))
    return res


# --------------------------------------------------------------------------------------------- R2 obligations

def region_must_call(fn, S, labels, callee):
    """Every path from the given outcome edges of switch S to a return passes a call to `callee`."""
    via = [c.block for c in fn.calls_to(callee)]
    starts = [j for lab, j in fn.succ[S] if lab in labels]
    r = set()
    for s0 in starts:
        r |= fn.reach([s0], removed_nodes=via)
    bad = sorted(r & set(fn.exits()))
    return (not bad, bad)


def ob_member_rejected(ctx):
    """A member expression outside callee position is rejected by the resolver."""
    ce = ctx.need("resolver::Resolver::check_expr")
    ctx.touch(ce)
    for S in sorted(ce.live):
        if ce.blocks[S]["t"]["k"] != "switch":
            continue
        si = ce.switch_info(S)
        if si["kind"] == "discr" and si["ty"].endswith("parser::Expr") and ce.place_str(si["of"]).strip("(*)") == "expr":
            labs = [lab for lab, _ in ce.succ[S] if si["vars"].get(lab) == "Member"]
            if not labs:
                return False, "no Member arm in check_expr"
            ok, bad = region_must_call(ce, S, labs, "resolver::Resolver::emit_error")
            return ok, "check_expr's Member arm %s emit_error on every path" % ("reaches" if ok else "does not reach")
    return False, "check_expr dispatch on Expr not found"


def ob_callee_shape(ctx):
    """A call whose callee is neither a name nor a member is rejected by the resolver."""
    ce = ctx.need("resolver::Resolver::check_expr")
    for S in sorted(ce.live):
        if ce.blocks[S]["t"]["k"] != "switch":
            continue
        si = ce.switch_info(S)
        if si["kind"] == "discr" and si["ty"].endswith("parser::Expr") and "callee" in sh(ne(ce.deep(si["of"]["l"]))):
            names = {si["vars"].get(lab) for lab, _ in ce.succ[S] if lab != "else"}
            if not {"Var", "Member"} <= names:
                continue
            labs = [lab for lab, _ in ce.succ[S] if lab == "else" or si["vars"].get(lab) not in ("Var", "Member")]
            ok, bad = region_must_call(ce, S, labs, "resolver::Resolver::emit_error")
            return ok, "check_expr's Call arm %s emit_error for callee shapes other than Var/Member" % ("reaches" if ok else "does not reach")
    return False, "check_expr has no dispatch on the callee's shape"


def ob_index_target(ctx):
    """An index assignment whose base is not a variable is rejected by the resolver."""
    f = ctx.need("resolver::Resolver::check_assign_index")
    ctx.touch(f)
    for c in f.calls_to("resolver::Resolver::emit_error"):
        for S, al in f.constraints(c.block):
            si = f.switch_info(S)
            if si["kind"] == "discr" and si["ty"].endswith("parser::Expr"):
                names = {si["vars"].get(l) if l != "else" else "else" for l in al}
                if "Var" not in names:
                    return True, "check_assign_index emits an error under base shape ∉ {Var}"
        # matches!(base, Expr::Var(..)) lowers to a bool assigned under the discriminant switch
        for S, al in f.constraints(c.block):
            si = f.switch_info(S)
            if si["kind"] == "multi":
                for (bi, kk, s) in si["defs"]:
                    for S2, lab in f.deciding(bi):
                        si2 = f.switch_info(S2)
                        if si2["kind"] == "discr" and si2["ty"].endswith("parser::Expr"):
                            return True, "check_assign_index emits an error depending on the base expression's shape"
    return False, "check_assign_index never rejects a non-variable base"


def ob_index_target_all_callers(ctx):
    """flatten_index_target assumes an index chain that starts at a variable.  For an index *assignment* the resolver sees to
    that (ob_index_target).  The other callers walk the receiver of a mutating method call, which can be any expression -
    `f()[0].push(2)` - so each of them has to establish the shape itself before the call: a test of the chain's root for
    Expr::Var (inline, or through a bool helper over the expression that walks Index nodes) whose positive outcome
    edge-dominates the call."""
    ok, why = ob_index_target(ctx)
    if not ok:
        return ok, why
    flat = "runtime::Runtime::flatten_index_target"
    uncovered = []
    callers = 0
    for fid, fn in sorted(ctx.lib.fns.items()):
        for c in fn.calls():
            if c.callee != flat:
                continue
            callers += 1
            if parent_fn(fid).endswith("::assign_index"):
                continue        # reached from Stmt::AssignIndex only: the resolver's obligation
            covered = False
            for S, al in fn.constraints(c.block):
                si = fn.switch_info(S)
                if si["kind"] == "call" and 0 not in al:
                    g = ctx.lib.fns.get(si["callee"] or "")
                    if g is not None and g.file == "src/runtime.rs" and g.locals[0]["ty"] == "bool" and any("parser::Expr" in l["ty"] for l in g.locals[1:g.argc + 1]):
                        names = set()
                        for S2 in sorted(g.live):
                            if g.blocks[S2]["t"]["k"] == "switch":
                                si2 = g.switch_info(S2)
                                if si2["kind"] == "discr" and si2["ty"].endswith("parser::Expr"):
                                    names |= set(si2["vars"].values()) & {"Index", "Var"}
                                    names |= {si2["vars"].get(l) for l, _t in g.succ[S2] if l != "else"} & {"Index", "Var"}
                        if {"Index", "Var"} <= names or "Var" in names:
                            covered = True
                if si["kind"] in ("place", "multi") and 0 not in al:
                    # a bool that is `true` exactly under an Expr::Var outcome (`matches!(root, Expr::Var(..))`, possibly the
                    # spliced body of a helper): follow the copy to the local assigned in the two arms
                    l = si["place"]["l"] if si["kind"] == "place" else si["local"]
                    for (bi, kk, st2) in fn.whole_defs(l):
                        if kk != "t" and st2["rv"]["k"] == "use" and isinstance(st2["rv"]["a"], dict) and st2["rv"]["a"].get("int") == 1:
                            for S3, lab in fn.deciding(bi):
                                si3 = fn.switch_info(S3)
                                if si3["kind"] == "discr" and si3["ty"].endswith("parser::Expr") and si3["vars"].get(lab) == "Var":
                                    covered = True
                if si["kind"] in ("multi", "discr") and "parser::Expr" in str(si.get("ty", "")) and si["kind"] == "discr":
                    names = {si["vars"].get(l) for l in al}
                    subj = sh(ne(fn.place_expr(si["of"], 4)))
                    if names == {"Var"} and subj not in ("object", "target"):
                        covered = True      # the root of the chain (not the receiver itself) matched as Var
            if not covered:
                uncovered.append(parent_fn(fid).split("::")[-1])
    if uncovered:
        return False, "%s hand(s) an index chain to flatten_index_target without having established that it starts at a variable: a mutating method on a chain that starts at a call or a literal (`f()[0].push(2)`) reaches the unreachable! arm" % ", ".join(sorted(set(uncovered)))
    return True, why + "; the %d other caller(s) test the root of the chain first" % (callers - 1)


def ob_loop_context(ctx):
    """`comot`/`next` cannot cross a function boundary: the loop depth is reset for a function body."""
    f = ctx.need("resolver::Resolver::check_function_body")
    ctx.touch(f)
    cb = f.calls_to("resolver::Resolver::check_block")
    if not cb:
        return False, "check_function_body does not call check_block"
    writes = []   # (block, is_zero)
    for b in sorted(f.live):
        for s in f.blocks[b]["s"]:
            lhs = s["lhs"]
            if any(isinstance(e, dict) and e.get("f") == "in_loop" for e in lhs["p"]):
                rv = s["rv"]
                zero = rv["k"] == "use" and isinstance(rv["a"], dict) and rv["a"].get("int") == 0
                writes.append((b, zero))
        t = f.blocks[b]["t"]
        if t["k"] == "call":
            cal = (t.get("res") or t.get("callee") or "")
            if cal.startswith("std::mem::replace") or cal.startswith("std::mem::take") or cal.startswith("core::mem::replace"):
                a0 = f.expr(t["args"][0], 6)
                if "in_loop" in str(a0):
                    zero = cal.startswith("std::mem::take") or (len(t["args"]) > 1 and t["args"][1].get("int") == 0)
                    writes.append((b, zero))
    zero_blocks = [b for b, z in writes if z]
    any_blocks = [b for b, z in writes]
    for c in cb:
        if not any(f.dominates(z, c.block) for z in zero_blocks):
            return False, "in_loop is not reset to 0 before the function body is checked"
        ok, w = f.must_pass([c.block], [b for b in any_blocks if b != c.block and not f.dominates(b, c.block)])
        if not ok:
            return False, "in_loop is not restored after the function body is checked"
    return True, "in_loop saved, zeroed before check_block and restored after it"


def ob_call_node(ctx):
    """eval_function_call is entered only with a Call node."""
    callers = [c for c in ctx.lib.callers_of("runtime::Runtime::eval_function_call")]
    if not callers:
        return False, "no caller"
    for c in callers:
        fn = c.fn
        ok = False
        for S, al in fn.constraints(c.block):
            si = fn.switch_info(S)
            if si["kind"] == "discr" and si["ty"].endswith("parser::Expr"):
                names = {si["vars"].get(l) for l in al}
                arg = ne(fn.expr(c.args[1], 4)) if len(c.args) > 1 else None
                subj = ne(fn.place_expr(si["of"], 4))
                if names == {"Call"} and arg == subj:
                    ok = True
        if not ok:
            return False, "caller %s passes a node not known to be Expr::Call" % fn.id
    return True, "single caller passes the node matched as Expr::Call"


def ob_arity(ctx):
    """assert_eq!(args, params) in the call paths: the resolver rejects a wrong argument count for named callees."""
    ce = ctx.need("resolver::Resolver::check_expr")
    # read from the compiled body: a comparison of the call's argument count with the callee's declared count (a built-in's
    # arity(), a script function's parameter count) whose "differs" side reports an error - however the two counts are named
    n = 0
    tests = {}
    for S in sorted(ce.live):
        if ce.blocks[S]["t"]["k"] != "switch":
            continue
        si = ce.switch_info(S)
        if si["kind"] != "bin" or si["op"] not in ("Ne", "Eq"):
            continue
        a, b = sh(ne(ce.deep(si["a"]))), sh(ne(ce.deep(si["b"])))
        if any(x.startswith("len(") and ".args" in x for x in (a, b)) and any(("arity(" in x or "lookup_func(" in x) for x in (a, b)):
            tests[S] = si["op"]
    hit = set()
    for c in ce.calls():
        if not (c.callee or "").endswith("emit_error"):
            continue
        for S, al in ce.constraints(c.block):
            if S in tests and ((tests[S] == "Ne" and 0 not in al) or (tests[S] == "Eq" and list(al) == [0])):
                hit.add(S)
    n = len(hit)
    return n >= 3, "%d arity comparisons (argument count against the declared count) whose unequal side emits an error in check_expr" % n


AST_OBLIGATIONS = [
    # (predicate on (fn id, signature), obligation id, function)
    (lambda f, s: f.endswith("::eval_expr") and s == "Expr(expr)∈{Member}", "member-outside-call", ob_member_rejected),
    (lambda f, s: f.endswith("::eval_function_call") and "Expr(call)∈{Call}" in s and "Expr(_)∈" in s and "ExecFlow" not in s, "callee-shape", ob_callee_shape),
    (lambda f, s: f.endswith("::flatten_index_target") and s.startswith("Expr(target)∈"), "index-assignment-base", ob_index_target_all_callers),
    (lambda f, s: f.endswith("::eval_function_call") and s.startswith("Expr(call)∈{") and "Expr(call)∈{Call}" not in s, "call-node", ob_call_node),
]


# --------------------------------------------------------------------------------------------- rules

def r1_r2_r7(ctx):
    bodies = [f for f in judged_bodies(ctx) if f.file in JUDGED_FILES]
    for f in bodies:
        ctx.touch(f)
    part = partition_facts(ctx)
    sites = keyed_sites(ctx, bodies)
    n_explicit = 0
    ob_cache = {}
    for st, key in sites:
        if st.kind != "diverge":
            continue
        n_explicit += 1
        where = st.fn.where(st.block)
        fnid = parent_fn(st.fn.id)
        sig = st.signature()
        classes = st.classes()
        e = st.empty_intersection()
        if e:
            ctx.ok("R1|" + key, where, "dead arm: contradictory constraints on %s" % e)
            continue
        # caller-side constraint for the partition dispatchers
        if fnid in part and classes == {"OP"}:
            enum, entered = part[fnid]
            names = None
            for cls, subj, nm, S, dom in st.cons:
                if cls == "OP" and subj.startswith(enum + "("):
                    names = nm if names is None else names & nm
            if entered is not None and names is not None:
                if not (names & entered):
                    ctx.ok("R7|" + key, where, "partition arm: panics on {%s}, dispatcher entered only on {%s}" % (",".join(sorted(names)), ",".join(sorted(entered))))
                else:
                    ctx.bad("R7|" + key, where, "dispatcher can be entered with %s on which it panics (%s)" % (sorted(names & entered), st.message))
                continue
        if classes and classes <= INPUT_CLASSES:
            if classes & {"RT", "OP", "VAL"} and not (fnid.endswith("eval_function_call") and "ExecFlow" in sig and False):
                if "ExecFlow(" in sig and fnid.endswith("::eval_function_call"):
                    if "loopctx" not in ob_cache:
                        ob_cache["loopctx"] = ob_loop_context(ctx)
                    ok, why = ob_cache["loopctx"]
                    if ok:
                        ctx.ok("R2|loop-context|" + key, where, why)
                    else:
                        ctx.bad("R2|loop-context|" + fnid, where, "a `comot`/`next` inside a function defined in a loop reaches the call boundary (%s): %s" % (st.message, why))
                    continue
                ctx.bad("R1|" + key, where,
                        "panic decided only by run-time value types / the operator written in the source: %s  [%s] -- any value reaches any operand position because the checker types parameters as dynamic" % (sig, st.message))
                continue
            # AST-only
            done = False
            for pred, oid, fnc in AST_OBLIGATIONS:
                if pred(fnid, sig):
                    if oid not in ob_cache:
                        ob_cache[oid] = fnc(ctx)
                    ok, why = ob_cache[oid]
                    if ok:
                        ctx.ok("R2|%s|%s" % (oid, key), where, why)
                    else:
                        ctx.bad("R2|%s|%s" % (oid, fnid), where, "the runtime panics on an AST shape the resolver accepts (%s): %s" % (st.message, why))
                    done = True
                    break
            if not done:
                ctx.bad("R2|unmapped|" + key, where, "panic decided by the shape of the AST alone (%s) with no resolver obligation on record: %s" % (sig, st.message))
            continue
        # invariant-guarded: not decided here, listed in the evidence
        ctx.note("invariant-guarded panic site (not judged): %s %s" % (key, st.message))
    ctx.floor("explicit panic sites in the script-facing layer", n_explicit, 17)    # 37 on the pinned tree; 20 were dynamic-type panics, repaired (D1)
    ok, why = ob_arity(ctx)
    if ok:
        ctx.ok("R2|arity", "", why)
    else:
        ctx.bad("R2|arity", "src/resolver.rs", "arity asserts in the call paths are not backed by resolver checks: " + why)


MEMBER_ENUMS = {"StringBuiltin": "builtins::string::StringBuiltin", "NumberBuiltin": "builtins::number::NumberBuiltin", "ArrayBuiltin": "builtins::array::ArrayBuiltin",
                "ProcessCommandBuiltin": "builtins::process::ProcessCommandBuiltin", "ProcessResultBuiltin": "builtins::process::ProcessResultBuiltin"}


def static_member_arity(ctx):
    """Does the resolver reject every method call whose argument count no built-in method of that name takes - also when the
    receiver's type is not known statically?  Returns (holds, arity_of_variant {(enum, variant): n}, notes).

    Three facts, each checked on the current tree:
     (1) typed receivers: an emit_error(FunctionCallArity) guarded by len(args) != arity(builtin);
     (2) dynamic receivers: an emit_error(FunctionCallArity) on the path where the receiver type is Dynamic, guarded by
         `!arities.contains(&Some(len(args)))`, where from_name of all five method families dominates the test;
     (3) the name -> arity relation is a function: every method of a given name, in whichever family, takes the same number
         of arguments (so "some method of that name takes len(args)" gives the arity of the one the runtime finds)."""
    from ..tables import abstract_eval, hir_str_table, mir_enum_table
    from .c09 import emit_sites, CE
    notes = []
    arity = {}
    by_name = {}
    for en, path in MEMBER_ENUMS.items():
        fnm = ctx.lib.fns.get("<%s as builtins::Builtin>::from_name" % path)
        ar = ctx.lib.fns.get("<%s as builtins::Builtin>::arity" % path)
        if fnm is None or ar is None:
            return False, {}, ["family %s: from_name / arity not found" % en]
        names = hir_str_table(fnm) or {}
        atab = mir_enum_table(ar, 1)
        for name, variant in names.items():
            a = (atab.get(variant) if atab else abstract_eval(ar, 1, 0)) or ["?"]
            try:
                k = int(str(a[0]).replace("_usize", ""))
            except ValueError:
                return False, {}, ["arity of %s::%s not a constant (%s)" % (en, variant, a[0])]
            arity[(en, variant)] = k
            by_name.setdefault(name, set()).add(k)
    clash = {n_: sorted(v) for n_, v in by_name.items() if len(v) > 1}
    if clash:
        return False, arity, ["methods of one name with different arities: %s" % clash]
    ce = ctx.need(CE)
    typed = dyn = None
    for (fshort, kind, cons, fn, c) in emit_sites(ctx):
        if fshort != "check_expr" or kind != "FunctionCallArity":
            continue
        blob = " ∧ ".join(cons)
        if "∈Member" not in blob:
            continue
        if "Ne(len(" in blob and "arity(" in blob and "∈true" in blob:
            typed = (fn, c)
        if "contains(" in blob and re.search(r"contains\([^∧]*len\(expr@Call\.args\.args\)[^∧]*∈false", blob):
            fams = {x for x in MEMBER_ENUMS for cc in fn.calls() if (cc.callee or "") == "<%s as builtins::Builtin>::from_name" % MEMBER_ENUMS[x] and fn.dominates(cc.block, c.block)}
            if fams == set(MEMBER_ENUMS):
                dyn = (fn, c)
            else:
                notes.append("dynamic-receiver arity test does not cover %s" % sorted(set(MEMBER_ENUMS) - fams))
    if typed is None:
        notes.append("no arity test for statically typed receivers")
    if dyn is None:
        notes.append("no arity test on the dynamic-receiver path")
    return (typed is not None and dyn is not None), arity, notes


def r3_args_index(ctx):
    """Constant indexes into the argument list need a dominating length check, or the resolver's guarantee that the argument
    count equals the arity of every built-in method of that name (for typed and for dynamic receivers)."""
    n = 0
    holds, arity_of, why_not = static_member_arity(ctx)
    if holds:
        ctx.ok("static-member-arity", "src/resolver.rs", "argument count of a method call is checked for typed and dynamic receivers; name -> arity is a function over all method families")
    else:
        ctx.note("no static arity guarantee for method calls: %s" % "; ".join(why_not))
    for fn in [f for f in judged_bodies(ctx) if f.file == "src/runtime.rs"]:
        for b in sorted(fn.live):
            t = fn.blocks[b]["t"]
            if t["k"] != "assert" or t["kind"] != "BoundsCheck":
                continue
            ln = ne(fn.expr(t["ops"][0]))
            ix = ne(fn.expr(t["ops"][1]))
            if ix[0] != "const":
                continue
            if "args" not in sh(ln):
                continue
            n += 1
            facts = cmp_facts(fn, b)
            st, fact = upper_bound(facts, ix, ln)
            # which builtin arm
            arm = []
            for S, al in fn.constraints(b):
                si = fn.switch_info(S)
                if si["kind"] == "discr" and "Builtin" in si["ty"]:
                    arm = sorted(si["vars"].get(l, "else") for l in al)
            ordn = sum(1 for r in ctx.records if r["rule"] == ctx.rule and r["instance"].startswith("%s|%s|[%s]" % (parent_fn(fn.id), ",".join(arm), sh(ix))))
            key = "%s|%s|[%s]#%d" % (parent_fn(fn.id), ",".join(arm), sh(ix), ordn + 1)
            if st == "ok" or any(op == "Eq" and (a == ln or b2 == ln) for op, a, b2, S in facts):
                ctx.ok(key, fn.where(b), "guarded by a length test")
                continue
            # the arm's built-in(s) and their arity
            enum = None
            for S, al in fn.constraints(b):
                si = fn.switch_info(S)
                if si["kind"] == "discr" and "Builtin" in si["ty"]:
                    enum = si["ty"].split("::")[-1]
            k = ix[1] if isinstance(ix[1], int) else (int(re.sub(r"\D", "", str(ix[1])) or -1))
            if holds and enum in MEMBER_ENUMS and arm and all((enum, v) in arity_of and k < arity_of[(enum, v)] for v in arm):
                ctx.ok(key + "|static-arity", fn.where(b), "index %d < arity %s of %s, and the resolver rejects every method call whose argument count is not that arity" % (k, sorted({arity_of[(enum, v)] for v in arm}), ",".join(arm)))
            else:
                ctx.bad(key, fn.where(b), "`%s[%s]` in the %s arm has no dominating length check; arity is only checked statically when the receiver's type is known" % (sh(ln).replace("len(", "").rstrip(")"), sh(ix), ",".join(arm)))
    ctx.floor("constant argument-list indexes", n, 12)


def r4_unchecked(ctx):
    n = 0
    for fn in [f for f in judged_bodies(ctx) if f.file in JUDGED_FILES]:
        for c in fn.calls():
            if not c.callee or "get_unchecked" not in c.callee:
                continue
            n += 1
            cont = ne(fn.expr(c.args[0]))
            idx = ne(fn.expr(c.args[1]))
            facts = cmp_facts(fn, c.block)
            st, fact = upper_bound(facts, idx, ("len", cont))
            if st != "ok":
                # the length may have been given a name first (`let len = items.len()`): a named local with one definition
                # whose value is this vector's length is the same bound
                for li, loc in enumerate(fn.locals):
                    if loc["name"] and li > fn.argc and len(fn.whole_defs(li)) == 1 and ne(fn.deep(li)) in (("len", cont), ("len", ne(fn.deep(c.args[0])))):
                        st2, fact2 = upper_bound(facts, idx, ("var", loc["name"]))
                        if st2 == "ok" or (st2 == "offbyone" and st == "none"):
                            st, fact = st2, fact2
            key = "%s|%s[%s]" % (parent_fn(fn.id), sh(cont), sh(idx))
            if st == "ok":
                ctx.ok(key, fn.where(c.block), "edge-dominated by %s(%s,%s)" % (fact[0], sh(fact[1]), sh(fact[2])))
            elif st == "offbyone":
                ctx.bad(key + "|offbyone", fn.where(c.block), "unchecked access guarded by `<=` where `<` is needed: %s(%s,%s)" % (fact[0], sh(fact[1]), sh(fact[2])))
            else:
                ctx.bad(key + "|unguarded", fn.where(c.block), "get_unchecked without a dominating `index < len` test on the same vector (facts: %s)" % [(o, sh(a), sh(b)) for o, a, b, S in facts])
    ctx.floor("get_unchecked sites", n, 4)


LOOKUP_CALLS = ("lookup_local", "lookup_var", "lookup_local_mut", "lookup_var_mut", "lookup_local_ref", "lookup_var_ref")


def block_variables_exist_from_block_entry(ctx):
    """Does the runtime create a slot for every variable of a block that defines functions *when the block is entered*?
    Looked for in hoist_block_functions (called by exec_block_with_flow before its statement loop): a loop over the block's
    statements that, for `make` statements, takes the bound local and defines it (with null), and that lies on every path
    from a register_function call to the routine's return.  -> (True/False, explanation)"""
    from .c03 import natural_loop
    eb = ctx.lib.fns.get("runtime::Runtime::exec_block_with_flow")
    hb = ctx.lib.fns.get("runtime::Runtime::hoist_block_functions")
    if eb is None or hb is None:
        return False, "exec_block_with_flow / hoist_block_functions not found"
    hoists = eb.calls_to("runtime::Runtime::hoist_block_functions")
    execs = eb.calls_to("runtime::Runtime::exec_stmt")
    if not hoists or not execs or not all(eb.dominates(hoists[0].block, e.block) for e in execs):
        return False, "hoist_block_functions does not run before the block's statements"
    regs = hb.calls_to("runtime::Runtime::register_function")
    defs = [c for c in hb.calls() if (c.callee or "").endswith("Runtime::define_bound_local")]
    binds = [c for c in hb.calls() if (c.callee or "").endswith("Runtime::bound_stmt_local")]
    if not regs or not defs or not binds:
        return False, "hoist_block_functions registers functions but defines no variables"
    # the defining loop: natural loop containing the define call; under the Assign outcome of the statement dispatch
    body = set()
    for H in sorted(hb.live):
        nl = natural_loop(hb, H)
        if defs[0].block in nl and (not body or len(nl) < len(body)):
            body, head = nl, H
    if not body:
        return False, "the variables are not defined in a loop over the block's statements"
    assign_only = False
    for S, al in hb.constraints(defs[0].block):
        si = hb.switch_info(S)
        if si["kind"] == "discr" and si["ty"].endswith("parser::Stmt") and label_names(hb, S, al, si) == {"Assign"}:
            assign_only = True
    nulls = "Value::Null" in sh(ne(hb.deep(defs[0].args[-1])))
    # a flag raised right after every registration (`defines_function = true`) cannot be false afterwards: the false side of a
    # test of that flag is not a way out for a path that has registered a function (the flag is only ever assigned constants)
    flags = None
    for r in regs:
        here = {st["lhs"]["l"] for st in hb.blocks[r.target]["s"] if r.target is not None and not st["lhs"]["p"] and st["rv"]["k"] == "use" and isinstance(st["rv"]["a"], dict) and st["rv"]["a"].get("int") == 1}
        flags = here if flags is None else flags & here
    flags = {l for l in (flags or set()) if all(kk != "t" and st["rv"]["k"] == "use" and isinstance(st["rv"]["a"], dict) and st["rv"]["a"].get("int") in (0, 1) for (bi, kk, st) in hb.whole_defs(l))}
    dead = []
    for S in sorted(hb.live):
        if hb.blocks[S]["t"]["k"] == "switch":
            d = hb.blocks[S]["t"]["d"]
            pl = (d.get("move") or d.get("copy")) if isinstance(d, dict) else None
            root = pl["l"] if pl is not None and not pl["p"] else None
            if root is not None and root not in flags:
                dd = hb.whole_defs(root)
                if len(dd) == 1 and dd[0][1] != "t" and dd[0][2]["rv"]["k"] == "use" and isinstance(dd[0][2]["rv"]["a"], dict):
                    p2 = dd[0][2]["rv"]["a"].get("move") or dd[0][2]["rv"]["a"].get("copy")
                    root = p2["l"] if p2 is not None and not p2["p"] else root
            if root in flags:
                dead.append((S, 0))
    reach_exit_without = set(hb.exits()) & hb.reach([r.target for r in regs if r.target is not None], removed_nodes=[head], removed_edges=dead)
    if not assign_only or not nulls:
        return False, "the definition is not `null` for every `make` statement of the block"
    # the pass that defines the variables sees *all* statements knowing whether the block defines a function: when it is the
    # same loop as the one that registers the functions, a test of the flag inside it depends on statement order - a `make`
    # that precedes the block's first function definition is skipped
    if any(r.block in body for r in regs):
        for S, al in hb.constraints(defs[0].block):
            if S not in body:
                continue
            d = hb.blocks[S]["t"]["d"]
            pl = (d.get("move") or d.get("copy")) if isinstance(d, dict) else None
            root = pl["l"] if pl is not None and not pl["p"] else None
            if root is not None and root not in flags:
                dd = hb.whole_defs(root)
                if len(dd) == 1 and dd[0][1] != "t" and dd[0][2]["rv"]["k"] == "use" and isinstance(dd[0][2]["rv"]["a"], dict):
                    p2 = dd[0][2]["rv"]["a"].get("move") or dd[0][2]["rv"]["a"].get("copy")
                    root = p2["l"] if p2 is not None and not p2["p"] else root
            if root in flags:
                return False, "a `make` that precedes the block's first function definition gets no slot (the flag is tested in the loop that is still computing it)"
    if reach_exit_without:
        return False, "a block can register a function without defining its variables"
    return True, "every `make` variable of a block that defines a function gets a null slot at block entry (hoist_block_functions, before any statement runs)"


def r5_binding_expects(ctx):
    """expect/unwrap (or a post-loop unreachable!) on a variable lookup: reachable when a hoisted function runs
    before an enclosing local's declaration has executed (the resolver checks lexical, not temporal, order) - unless the
    variables of a block that defines functions exist from the moment the block is entered."""
    n = 0
    pre, pre_why = block_variables_exist_from_block_entry(ctx)
    for fn in [f for f in judged_bodies(ctx) if f.file == "src/runtime.rs"]:
        for st in collect_sites(fn, ctx.lib):
            if st.kind != "expect":
                continue
            c = [c for c in fn.calls() if c.block == st.block][0]
            src = ne(fn.expr(c.args[0], 8))
            txt = sh(src)
            srcs = sorted({w for w in LOOKUP_CALLS if (w + "(") in txt})
            if not srcs:
                # phi of two lookups: look at the defs of the receiver local
                pl = c.args[0].get("move") or c.args[0].get("copy")
                if pl is not None:
                    for (bi, kk, s) in fn.whole_defs(pl["l"]):
                        if kk == "t":
                            cal = (s.get("res") or s.get("callee") or "").split("::")[-1]
                            if cal in LOOKUP_CALLS:
                                srcs.append(cal)
                srcs = sorted(set(srcs))
            if not srcs:
                continue
            n += 1
            key = "%s|expect|%s" % (parent_fn(fn.id), "+".join(srcs))
            ordn = sum(1 for r in ctx.records if r["rule"] == ctx.rule and r["instance"].startswith(key))
            if pre:
                ctx.ok(key + "#%d" % (ordn + 1), fn.where(st.block), "%s; the name-keyed fallback is taken only without binding facts, i.e. outside static checking (every resolved reference has a binding: C04-R5b)" % pre_why)
                continue
            ctx.bad(key + "#%d" % (ordn + 1), fn.where(st.block),
                    "panics when the variable has no live binding: a hoisted function called before the enclosing declaration ran reaches this (%s)" % st.message)
        # unreachable!() after an exhausted search of the environment (assign to a binding that is not live)
        for st in collect_sites(fn, ctx.lib, include_expect=False):
            if st.kind != "diverge" or st.classes():
                continue
            iters = [c for c in st.cons if c[0] == "ITER"]
            if not iters:
                continue
            searches_env = False
            for cls, subj, names, S, dom in iters:
                si = fn.switch_info(S)
                e = fn.deep(si["of"]["l"])
                if ".env" in sh(ne(e)):
                    searches_env = True
            if not searches_env:
                continue
            n += 1
            key = "%s|post-search-panic|env" % parent_fn(fn.id)
            if pre:
                ctx.ok(key, fn.where(st.block), pre_why)
                continue
            ctx.bad(key, fn.where(st.block),
                    "panics when no scope holds the variable: an assignment inside a hoisted function that runs before the enclosing declaration reaches this (%s)" % st.message)
    ctx.floor("variable-lookup expects", n, 8)


SUB_EXCEPTIONS = {
    "runtime::Runtime::bound_param_ids": "local_range is a Range built by the resolver with start <= end (analysis-table invariant, LOOKUP class)",
}


def r8_unsigned_subtraction(ctx):
    """`a - b` on unsigned lengths of run-time data needs a dominating `b <= a` (debug builds panic, release wraps)."""
    if ctx.cfg != "dev":
        ctx.note("overflow checks are compiled out in this configuration; rule evaluated on the dev build")
        return
    n = 0
    files = ("src/runtime.rs", "src/builtins/mod.rs", "src/builtins/array.rs", "src/builtins/number.rs", "src/builtins/process.rs", "src/builtins/string.rs", "src/process.rs")
    for fn in [f for f in judged_bodies(ctx) if f.file in files]:
        for b in sorted(fn.live):
            t = fn.blocks[b]["t"]
            if t["k"] != "assert" or not t["kind"].startswith("OverflowSub"):
                continue
            n += 1
            a = ne(fn.deep(t["ops"][0]))
            bb = ne(fn.deep(t["ops"][1]))
            key = "%s|%s - %s" % (parent_fn(fn.id), sh(a)[:60], sh(bb)[:40])
            if parent_fn(fn.id) in SUB_EXCEPTIONS:
                # the exception rests on a fact about local_range, which is checked rather than believed: the range it
                # returns is start .. start + len, and the subtraction here is end - start of exactly that range
                lr = ctx.lib.fns.get("analysis::facts::ProgramFacts::local_range")
                earned = False
                if lr is not None and "local_range(" in sh(a) and "local_range(" in sh(bb) and sh(a).endswith(".end") and sh(bb).endswith(".start"):
                    ctx.touch(lr)
                    for b2 in sorted(lr.live):
                        for st2 in lr.blocks[b2]["s"]:
                            rv2 = st2["rv"]
                            if st2["lhs"]["l"] == 0 and rv2["k"] == "agg" and str(rv2.get("adt", "")).endswith("Range") and len(rv2["ops"]) == 2:
                                lo, hi = sh(ne(lr.deep(rv2["ops"][0]))), sh(ne(lr.deep(rv2["ops"][1])))
                                if hi.replace(" ", "") in ("Add(%s,%s)" % (lo, lo.replace("locals_start", "locals_len")), "Add(%s,%s)" % (lo.replace("locals_start", "locals_len"), lo)):
                                    earned = True
                if earned:
                    ctx.ok(key, fn.where(b), "named exception, checked: local_range returns start .. start + len, so end - start cannot wrap")
                else:
                    ctx.bad(key + "|exception-not-earned", fn.where(b), "the subtraction was excused because local_range returns start .. start + len; that is no longer what the code shows (%s - %s)" % (sh(a)[:50], sh(bb)[:50]))
                continue
            facts = cmp_facts(fn, b)
            ok = False
            for op, A, B, S in facts:
                for (o, x, y) in ((op, A, B), ({"Lt": "Gt", "Le": "Ge", "Gt": "Lt", "Ge": "Le", "Eq": "Eq", "Ne": "Ne"}[op], B, A)):
                    if x == bb and y == a and o in ("Lt", "Le"):
                        ok = True
                    if x == a and y == bb and o in ("Gt", "Ge"):
                        ok = True
                    # len - k guarded by len > c / len >= c / len != 0 (k == 1)
                    if bb[0] == "const" and isinstance(bb[1], int) and x == a and y[0] == "const" and isinstance(y[1], int):
                        if (o == "Gt" and y[1] >= bb[1] - 1) or (o == "Ge" and y[1] >= bb[1]) or (o == "Ne" and y[1] == 0 and bb[1] == 1):
                            ok = True
            if not ok and "::{closure" in fn.id:
                # a closure body: what the enclosing body has established about a captured variable before it built the
                # closure still holds inside it (a capture of a binding that is never reassigned)
                m = re.match(r"^arg1\.(\d+)$", sh(a))
                sites = ctx.lib.closure_sites(fn)
                if m and sites:
                    par, sb, crv = sites[0]
                    k = int(m.group(1))
                    if k < len(crv.get("ops", [])):
                        pe = par.deep(crv["ops"][k])
                        while pe[0] in ("ref", "deref"):
                            pe = pe[1]
                        pl = pe[2] if pe[0] == "var" and len(pe) > 2 else (pe[1] if pe[0] == "arg" else None)
                        stable = isinstance(pl, int) and (pl <= par.argc and not par.whole_defs(pl) or len(par.whole_defs(pl)) == 1)
                        pa = ne(pe)
                        if stable:
                            for op, A, B, S in cmp_facts(par, sb):
                                for (o, x, y) in ((op, A, B), ({"Lt": "Gt", "Le": "Ge", "Gt": "Lt", "Ge": "Le", "Eq": "Eq", "Ne": "Ne"}[op], B, A)):
                                    if bb[0] == "const" and isinstance(bb[1], int) and x == pa and y[0] == "const" and isinstance(y[1], int):
                                        if (o == "Gt" and y[1] >= bb[1] - 1) or (o == "Ge" and y[1] >= bb[1]) or (o == "Ne" and y[1] == 0 and bb[1] == 1):
                                            ok = True
            if ok:
                ctx.ok(key, fn.where(b), "dominated by a comparison of the two operands")
            else:
                ctx.bad(key, fn.where(b), "unsigned subtraction `%s - %s` has no dominating guard (%s): with run-time data for which the right side is larger the debug build panics and the release build wraps" % (sh(a), sh(bb), [(o, sh(x), sh(y)) for o, x, y, S in facts]))
    ctx.floor("unsigned subtractions examined", n, 3)


def r9_no_failing_index_in_string_builtins(ctx):
    """A slice or index that can leave its text panics the interpreter just like an explicit unreachable!: the relational-guard
    rule of C13-R1 over tw.rs / replace.rs / string.rs / array.rs is part of this property too."""
    from .c13 import r1_no_failing_index
    r1_no_failing_index(ctx)


def r10_static_tables_describe_the_runtime(ctx):
    """The checker decides what is accepted from the built-ins' name / arity / return-type tables; a table entry that promises
    more than the run-time arm delivers (reverse() typed as an array while it returns null) lets a program through that ends in
    an unreachable! (shared with C01-R5: the tables equal the documented signatures, which the dispatch arms implement)."""
    from .c01 import r5_builtin_tables
    r5_builtin_tables(ctx)


def r11_more_shared_front_end_rules(ctx):
    """Two more clauses other properties own whose violation ends in an interpreter panic on an accepted program: slice clamps
    its bounds to [0, len] (C13-R2; clamp(min > max) panics), and the initialiser of a declaration is resolved before the
    variable exists (C04-R4c; otherwise the runtime reads a variable that has no slot yet); and a character is only ever encoded
    into a buffer of 4 bytes (C13-R6)."""
    from .c13 import encode_buffers, r2_slice_clamps
    from .c04 import r4c_initialiser_sees_the_old_scope
    r2_slice_clamps(ctx)
    r4c_initialiser_sees_the_old_scope(ctx)
    encode_buffers(ctx)
    # a pruned declaration whose variable is written later: the write panics on a missing variable (C03-R4g)
    from .c03 import r4g_reads_and_writes_are_each_walked
    r4g_reads_and_writes_are_each_walked(ctx)


def _every_alternative_nonzero(fn, assert_term, core):
    """A divisor assigned in several arms (`if x.is_empty() { 1 } else { x.len() }`): every arm's value is a non-zero constant,
    or the length of something whose is_empty() was false (or whose length compared non-zero) on the way to that arm."""
    cond = assert_term["cond"]
    # find the local behind the divisor: the `a` operand of the Eq that feeds the assertion
    pl = cond.get("move") or cond.get("copy")
    dd = fn.whole_defs(pl["l"]) if pl else []
    if len(dd) != 1 or dd[0][1] == "t" or dd[0][2]["rv"]["k"] != "bin":
        return False
    a = dd[0][2]["rv"]["a"]
    for _ in range(4):
        pla = (a.get("move") or a.get("copy")) if isinstance(a, dict) else None
        if pla is None or pla["p"]:
            return False
        defs = fn.whole_defs(pla["l"])
        if len(defs) == 1 and defs[0][1] != "t" and defs[0][2]["rv"]["k"] in ("use", "cast"):
            a = defs[0][2]["rv"]["a"]
            continue
        break
    else:
        return False
    if len(defs) < 2:
        return False
    for (bi, k, st) in defs:
        if k == "t":
            txt = sh(ne(fn.deep({"copy": {"l": pla["l"], "p": []}})))
            callee = (st.get("res") or st.get("callee") or "")
            if callee.split("::")[-1] != "len":
                return False
            subj = sh(ne(fn.deep(st["args"][0]))) if st.get("args") else "?"
        else:
            rv = st["rv"]
            if rv["k"] == "use" and isinstance(rv["a"], dict) and rv["a"].get("int") not in (None, 0):
                continue
            e = ne(fn.deep_rvalue(rv))
            if e[0] != "len":
                return False
            subj = sh(e[1])
        known = False
        for S, al in fn.constraints(bi):
            si = fn.switch_info(S)
            stxt = sh(ne(fn.deep(fn.blocks[S]["t"]["d"])))
            if si["kind"] == "call" and (si["callee"] or "").split("::")[-1] == "is_empty" and subj in stxt and set(al) == {0}:
                known = True
        if not known:
            return False
    return True


def r12_no_division_by_zero(ctx):
    """Integer division and remainder panic on a zero divisor (in every build profile).  Every `/` and `%` the compiler
    guards with a DivisionByZero / RemainderByZero assertion has a divisor that cannot be zero: a non-zero constant, a value
    clamped from below (`x.max(c)`, `x.clamp(c, ..)`, `x + c` with c >= 1), or one a dominating comparison has shown to be
    non-zero (`d != 0`, `d > c`, or `x < d * k` on unsigned operands, which makes the product - hence d - positive)."""
    n = 0
    progs = [(ctx.lib, "")] + ([(ctx.bin, "bin:")] if ctx.bin is not None else [])
    for prog, tag in progs:
        for fid, fn in sorted(prog.fns.items()):
            if not fn.file.startswith("src/"):
                continue
            for b in sorted(fn.live):
                t = fn.blocks[b]["t"]
                if t["k"] != "assert" or t.get("kind") not in ("DivisionByZero", "RemainderByZero"):
                    continue
                n += 1
                ctx.touch(fn)
                cond = fn.deep(t["cond"])
                d = None
                if cond[0] == "bin" and cond[1] == "Eq":
                    d = cond[2] if not (cond[3][0] == "const" and cond[3][2] == 0) else cond[2]
                    if cond[2][0] == "const" and cond[2][2] == 0:
                        d = cond[3]
                ordn = sum(1 for r in ctx.records if r["rule"] == ctx.rule and r["instance"].startswith("div|%s%s|" % (tag, parent_fn(fid))))
                key = "div|%s%s|%s#%d" % (tag, parent_fn(fid), sh(ne(d))[:50] if d else "?", ordn + 1)
                if d is None:
                    ctx.bad(key, fn.where(b), "cannot see the divisor of this division")
                    continue
                txt = sh(ne(d))
                why = None
                while d[0] == "cast":
                    d = d[1]
                if d[0] == "const" and isinstance(d[2], int) and d[2] != 0:
                    why = "constant divisor %d" % d[2]
                else:
                    core = d
                    while core[0] == "cast":
                        core = core[1]
                    ctxt = sh(ne(core))
                    m = re.match(r"^(?:\w+::)*(max|clamp)\((.*)\)$", ctxt)
                    if core[0] == "call" and core[1].split("::")[-1] == "max" and any(a[0] == "const" and isinstance(a[2], int) and a[2] >= 1 for a in core[2]):
                        why = "clamped from below by max(.., c >= 1)"
                    elif core[0] == "call" and core[1].split("::")[-1] == "clamp" and len(core[2]) >= 2 and core[2][1][0] == "const" and isinstance(core[2][1][2], int) and core[2][1][2] >= 1:
                        why = "clamped from below by clamp(c >= 1, ..)"
                    elif core[0] == "bin" and core[1] == "Add" and any(a[0] == "const" and isinstance(a[2], int) and a[2] >= 1 for a in (core[2], core[3])):
                        why = "x + c with c >= 1"
                    elif core[0] in ("var", "phi", "local") and _every_alternative_nonzero(fn, t, core):
                        why = "every value the divisor can take is non-zero (a non-zero constant, or a length taken where is_empty() was false)"
                    else:
                        dn = ne(core)
                        for op, A, B, S in cmp_facts(fn, b):
                            for (o, x, y) in ((op, A, B), ({"Lt": "Gt", "Le": "Ge", "Gt": "Lt", "Ge": "Le", "Eq": "Eq", "Ne": "Ne"}[op], B, A)):
                                if x == dn and y[0] == "const" and isinstance(y[1], int):
                                    if (o == "Ne" and y[1] == 0) or (o == "Gt" and y[1] >= 0) or (o == "Ge" and y[1] >= 1):
                                        why = "dominated by %s(%s, %d)" % (o, sh(x)[:30], y[1])
                                # x < product containing the divisor (unsigned): the product is positive, so is every factor
                                if o == "Lt" and why is None:
                                    ytxt = sh(y)
                                    if y[0] == "var":
                                        l = next((i for i, lo in enumerate(fn.locals) if lo["name"] == y[1]), None)
                                        if l is not None and len(fn.whole_defs(l)) == 1:
                                            ytxt = sh(ne(fn.deep(l)))
                                    if ytxt.startswith("Mul(") and sh(dn) in ytxt:
                                        why = "dominated by %s < %s, a product with the divisor as a factor" % (sh(x)[:20], ytxt[:50])
                if why:
                    ctx.ok(key, fn.where(b), why)
                else:
                    ctx.bad(key, fn.where(b), "the divisor `%s` of this integer %s can be zero (no clamp from below, no dominating comparison with zero): the interpreter panics with 'attempt to %s' instead of computing or reporting" % (txt[:80], "division" if t["kind"] == "DivisionByZero" else "remainder", "divide by zero" if t["kind"] == "DivisionByZero" else "calculate the remainder with a divisor of zero"))
    ctx.floor("integer divisions / remainders with a run-time check", n, 10)


def r13_data_depth_fits_the_stack(ctx):
    """A native stack overflow is a crash like any other.  Copying, relocating, dropping and printing a value recurse once per
    nesting level of arrays with no probe, so the limit on nesting times the fattest of those frames, on top of the probe's
    budget, has to fit the stack of the thread the program runs on.  Shared with C08-R2 (probe, budget and the price of the
    data-depth recursions) and C08-R3 (the limit is enforced wherever nesting can grow)."""
    from .c08 import r2_probe_and_budget, r3_data_depth_is_bounded
    r2_probe_and_budget(ctx)
    r3_data_depth_is_bounded(ctx)


RULES = [("C06-R1", r1_r2_r7), ("C06-R3", r3_args_index), ("C06-R4", r4_unchecked), ("C06-R5", r5_binding_expects), ("C06-R8", r8_unsigned_subtraction), ("C06-R9", r9_no_failing_index_in_string_builtins), ("C06-R10", r10_static_tables_describe_the_runtime), ("C06-R11", r11_more_shared_front_end_rules), ("C06-R12", r12_no_division_by_zero), ("C06-R13", r13_data_depth_fits_the_stack)]

EXPLANATION = (
    "Static analysis of the type-checked MIR of every body reachable from Runtime::run/run_with_analysis in the script-facing "
    "layer. R1: each explicit panic site gets the set of switch outcomes that (edge-)dominate or directly decide it, typed by "
    "scrutinee; a site decided only by run-time value variants / source operators is a crash an accepted program can reach "
    "(parameters are typed dynamic and every typing rule accepts dynamic). R7: dispatcher partition agreement with the "
    "requires_mut_receiver tables. R2: AST-shaped panics need an unconditional resolver rejection. R3: constant indexes into the "
    "argument list need a dominating length check. R4: get_unchecked needs an edge-dominating `idx < len` on the same vector. "
    "R5: expects on variable lookups. Decides the presence of these panic routes on every path of the code; does not decide "
    "arena exhaustion, panics inside std, or invariants of the analysis tables."
)
EXPLANATION += (
    ' R11: two more clauses owned by other properties whose violation ends in an interpreter panic on an accepted program - slice clamps both bounds into [0, len] with min <= max (C13-R2), and the initialiser of a declaration is resolved before the variable exists (C04-R4c).'
)
EXPLANATION += (
    " R12: every integer division / remainder the compiler guards with a zero-divisor assertion (all of src/, library and CLI) has a divisor that cannot be zero - a non-zero constant, a value clamped from below (max / clamp / + c), or one a dominating comparison shows to be non-zero (including `x < d * k` on unsigned operands). R8's one named exception (end - start of local_range) is now earned: the rule checks that local_range returns start .. start + len. R8 also uses, inside a closure, what the enclosing body established about a captured, never reassigned variable before it built the closure. R11 additionally shares C13-R6's encode-buffer clause."
)
EXPLANATION += (
    " R1's obligation for the panic arm of flatten_index_target now covers every caller: the resolver's rejection for index assignments, and for the callers that walk a method receiver a test of the chain's root for Expr::Var whose positive outcome edge-dominates the call (D36 found and repaired)."
)
ASSUMPTIONS = [
    "the resolver lets values of any run-time type reach any operand position (dynamic typing of parameters, index and member results) - re-derived by C09's tables",
    "from_name(field) is a pure function of the method name (used for the dispatcher partition argument)",
    "cfg(test), Windows and wasm back ends are not compiled on this host and are not analysed",
]
TRUSTED = ["rustc nightly type checker, MIR construction and callee resolution", "nsx exporter faithfulness", "nsverif dominator/edge-dominance implementation"]
NONTRIVIAL = "one obligation per panic site / unchecked access / argument index; distinct = distinct structural key (function | kind | constraint signature | ordinal)"
EXPLANATION += (
    " Round 6: R5's discharge is order-independent (see C04-R10); R11 also shares C03-R4g; R13 shares C08-R2 / R3 (the data-depth limit times the fattest unprobed frame fits the stack)."
)

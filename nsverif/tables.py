"""T-TABLE / T-ARM helpers: finite tables extracted from the shape of match code."""
import re
from .mir import norm, show


def ret_values(fn, start, stop=()):
    """All values assigned to the return place in blocks reachable from `start`."""
    out = []
    for b in sorted(fn.reach([start], removed_nodes=stop)):
        for s in fn.blocks[b]["s"]:
            if s["lhs"]["l"] == 0 and not s["lhs"]["p"]:
                out.append((b, fn.rvalue_expr(s["rv"], 4)))
        t = fn.blocks[b]["t"]
        if t["k"] == "call" and t["dest"]["l"] == 0 and not t["dest"]["p"]:
            out.append((b, ("call", norm(t.get("res") or t.get("callee")), [fn.expr(a, 3) for a in t["args"]], b)))
    return out


def entry_discr_switch(fn, arg=1):
    """First switch (in dominator order from entry) on the discriminant of argument `arg` (possibly behind a deref)."""
    for S in sorted(fn.live):
        if fn.blocks[S]["t"]["k"] != "switch":
            continue
        si = fn.switch_info(S)
        if si["kind"] == "discr" and si["of"]["l"] == arg:
            return S, si
    return None, None


def _const_of(fn, o, env):
    if isinstance(o, dict):
        if "const" in o:
            if o.get("int") is not None:
                return ("c", o["int"], o["const"])
            return ("c", o["const"], o["const"])
        pl = o.get("copy") or o.get("move")
        if pl is not None and not pl["p"]:
            return env.get(pl["l"])
    return None


def abstract_eval(fn, arg, discr_val, max_paths=64):
    """Constant propagation through an acyclic table function with the discriminant of argument
    `arg` fixed to `discr_val`.  Returns the set of texts the return place can hold."""
    results = set()
    work = [(0, {})]
    steps = 0
    while work and steps < 4000:
        b, env = work.pop()
        env = dict(env)
        while True:
            steps += 1
            if steps > 4000:
                results.add("?budget")
                break
            blk = fn.blocks[b]
            for st in blk["s"]:
                lhs = st["lhs"]
                rv = st["rv"]
                val = None
                if rv["k"] == "discr" and rv["of"]["l"] == arg:
                    val = ("c", discr_val, str(discr_val))
                elif rv["k"] == "use":
                    val = _const_of(fn, rv["a"], env)
                    if val is None and lhs["l"] == 0:
                        val = ("s", show(fn.expr(rv["a"], 3)))
                elif rv["k"] == "un" and rv["op"] == "Not":
                    v = _const_of(fn, rv["a"], env)
                    if v and v[0] == "c" and v[1] in (0, 1):
                        val = ("c", 1 - v[1], "true" if v[1] == 0 else "false")
                elif rv["k"] == "agg":
                    val = ("s", short_val(fn.rvalue_expr(rv, 3)))
                else:
                    val = ("s", short_val(fn.rvalue_expr(rv, 2))) if lhs["l"] == 0 else None
                if not lhs["p"]:
                    if val is None:
                        env.pop(lhs["l"], None)
                    else:
                        env[lhs["l"]] = val
            t = blk["t"]
            k = t["k"]
            if k == "return":
                v = env.get(0)
                if v is None:
                    results.add("?")
                elif v[0] == "c":
                    results.add(v[2] if isinstance(v[2], str) else str(v[2]))
                else:
                    results.add(v[1])
                break
            if k == "goto":
                b = t["t"]
                continue
            if k in ("drop", "assert"):
                b = t["t"]
                continue
            if k == "call":
                if t["t"] is None:
                    results.add("!panic")
                    break
                cal = norm(t.get("res") or t.get("callee")) or "?"
                if not t["dest"]["p"]:
                    env[t["dest"]["l"]] = ("s", "call:" + cal.split("::")[-1])
                b = t["t"]
                continue
            if k == "switch":
                v = _const_of(fn, t["d"], env)
                if v is not None and v[0] == "c" and isinstance(v[1], int):
                    nxt = None
                    for val, tgt in t["ts"]:
                        if val == v[1]:
                            nxt = tgt
                    b = nxt if nxt is not None else t["else"]
                    continue
                # unknown: fork
                tg = [tgt for _, tgt in t["ts"]] + [t["else"]]
                for tgt in tg[1:]:
                    if len(work) < max_paths:
                        work.append((tgt, env))
                b = tg[0]
                continue
            results.add("?" + k)
            break
    return sorted(results)


def enum_discrs(prog, enum_path):
    a = prog.adt(enum_path)
    return [(v["name"], v["discr"]) for v in a["variants"]]


def mir_enum_table(fn, arg=1, prog=None, enum_path=None):
    """{variant: [result text,...]} for a function that dispatches on the discriminant of its argument."""
    S, si = entry_discr_switch(fn, arg)
    if S is None:
        return None
    table = {}
    for val, name in si["vars"].items():
        table[name] = abstract_eval(fn, arg, val)
    return table


def short_val(e):
    k = e[0]
    if k == "const":
        return str(e[1]) if e[2] is None else str(e[1])
    if k == "agg":
        if e[3]:
            return "%s::%s(%s)" % (e[1].split("::")[-1], e[2], ",".join(short_val(x) for x in e[3]))
        return "%s::%s" % (e[1].split("::")[-1], e[2])
    if k == "call":
        return "call:" + e[1].split("::")[-1]
    return show(e)


# ---------------------------------------------------------------------------------- HIR patterns

def pat_match(pat, val):
    """Does HIR pattern `pat` match abstract value `val`?
    val: ('V', path_last_segment, [subvals]) for enum variants / unit paths, ('T', [vals]) tuples,
         ('S', "text") string literal, ('I', int), ('B', bool), ('?',) unknown (matches only wild/bind)."""
    k = pat["k"]
    if k == "_":
        return True
    if k == "bind":
        return True if pat.get("sub") is None else pat_match(pat["sub"], val)
    if k == "or":
        return any(pat_match(p, val) for p in pat["subs"])
    if k == "tuple":
        if val[0] != "T":
            return False
        subs = pat["subs"]
        dd = pat.get("dd")
        vals = val[1]
        if dd is None:
            return len(subs) == len(vals) and all(pat_match(p, v) for p, v in zip(subs, vals))
        head, tail = subs[:dd], subs[dd:]
        return all(pat_match(p, v) for p, v in zip(head, vals[:len(head)])) and all(
            pat_match(p, v) for p, v in zip(tail, vals[len(vals) - len(tail):]))
    if k in ("ctor", "struct", "path"):
        if val[0] != "V":
            return False
        last = pat["path"].split("::")[-1]
        if last != val[1]:
            return False
        if k == "ctor":
            subs = pat["subs"]
            dd = pat.get("dd")
            vals = val[2]
            if dd is None:
                return len(subs) == len(vals) and all(pat_match(p, v) for p, v in zip(subs, vals))
            head, tail = subs[:dd], subs[dd:]
            return all(pat_match(p, v) for p, v in zip(head, vals[:len(head)])) and all(
                pat_match(p, v) for p, v in zip(tail, vals[len(vals) - len(tail):]))
        return True
    if k == "lit":
        v = pat["v"]
        if val[0] == "S":
            return v.startswith("Str(") and lit_str(v) == val[1]
        if val[0] == "I":
            return v.startswith("Int(") and _lit_int(v) == val[1]
        if val[0] == "B":
            return v == ("Bool(%s)" % ("true" if val[1] else "false"))
        return False
    return False


def _lit_int(v):
    import re as _re
    m = _re.search(r"Pu128\((\d+)\)", v)
    return int(m.group(1)) if m else None


def lit_str(v):
    # 'Str("shout", Cooked)' -> shout
    a = v.index('"')
    b = v.rindex('"')
    return v[a + 1:b].encode().decode("unicode_escape") if "\\" in v[a + 1:b] else v[a + 1:b]


def first_arm(match, val):
    """Index of the first arm matching val; arms with guards are returned as 'maybe' together with later ones.
    -> list of candidate arm indexes (first definite match terminates the list)."""
    out = []
    for i, arm in enumerate(match["arms"]):
        if pat_match(arm["pat"], val):
            out.append(i)
            if arm.get("guard") is None:
                return out
    return out


def str_patterns(pat):
    """All string literals of a pattern (through or-patterns)."""
    if pat["k"] == "lit" and pat["v"].startswith("Str("):
        return [lit_str(pat["v"])]
    if pat["k"] == "or":
        out = []
        for p in pat["subs"]:
            out += str_patterns(p)
        return out
    return []


def tree_paths(t, out=None):
    """All resolved paths mentioned in an exported HIR expression tree."""
    if out is None:
        out = []
    if isinstance(t, dict):
        if t.get("k") == "path":
            out.append(t["res"])
        if t.get("k") == "struct":
            out.append(t["path"])
        for v in t.values():
            tree_paths(v, out)
    elif isinstance(t, list):
        for v in t:
            tree_paths(v, out)
    return out


def hir_str_table(fn):
    """For a `match name { "lit" => Some(Path) ... _ => None }` function: {literal: last path segment}."""
    for m in fn.matches:
        table = {}
        for arm in m["arms"]:
            lits = str_patterns(arm["pat"])
            if not lits:
                continue
            paths = [p for p in tree_paths(arm["body_tree"]) if not p.endswith("::Some") and "Option" not in p]
            tgt = paths[-1].split("::")[-1] if paths else None
            for l in lits:
                table[l] = tgt
        if table:
            return table
    return const_search_table(fn)


def const_search_table(fn):
    """The same table kept as data: `TABLE.iter().find(|(n, _)| *n == name).map(|&(_, v)| v)` over a constant array of
    (literal, Path) pairs.  Accepted only when the search compares element field 0 with the argument, takes the first hit,
    and hands back field 1 of the hit unchanged; -> {literal: last path segment} (first entry wins, as `find` does)."""
    prog = getattr(fn, "prog", None)
    if prog is None:
        return None

    def mentions(e, out):
        if isinstance(e, tuple):
            if e and e[0] == "const" and isinstance(e[1], str):
                out.append(e[1])
            for x in e:
                mentions(x, out)
        elif isinstance(e, list):
            for x in e:
                mentions(x, out)
        return out
    calls = list(fn.calls())
    finds = [c for c in calls if (c.callee or "").endswith("::find") and len(c.args) == 2]
    maps = [c for c in calls if (c.callee or "") in ("std::option::Option::map", "core::option::Option::map")]
    if len(finds) != 1 or len(maps) != 1:
        return None
    fc, mc = finds[0], maps[0]
    ids = [i for i in mentions(fn.deep(fc.args[0]), []) if norm(i) in prog.consts]
    if len(ids) != 1:
        return None
    tree = prog.consts[norm(ids[0])].get("tree")
    if not tree or tree.get("k") != "array":
        return None
    # the result of map is what the function returns
    rd = mc.dest
    if rd is None or rd["l"] != 0 or rd["p"]:
        return None
    clos = {g.id.rsplit("::", 1)[-1]: g for g in prog.closures_of(fn.id)}

    def clo_of(arg):
        e = fn.deep(arg)
        if isinstance(e, tuple) and e[0] == "agg":
            m = re.search(r"(\{closure#\d+\})$", str(e[1]))
            return clos.get(m.group(1)) if m else None
        return None
    pred, proj = clo_of(fc.args[1]), clo_of(mc.args[1])
    if pred is None or proj is None:
        return None
    # predicate: one eq between field 0 of the element and the captured argument, returned as is
    pc = list(pred.calls())
    if len(pc) != 1 or not (pc[0].callee or "").split("::")[-1] == "eq" or pc[0].dest["l"] != 0 or any(pred.blocks[b]["t"]["k"] == "switch" for b in pred.live):
        return None
    sides = [str(pred.deep(a)) for a in pc[0].args]
    elem = [s_ for s_ in sides if "('arg', 2)" in s_ and "'0'" in s_]
    capt = [s_ for s_ in sides if "('arg', 1)" in s_ and "('arg', 2)" not in s_]
    if len(elem) != 1 or len(capt) != 1:
        return None
    # projection: field 1 of the hit, nothing else
    if list(proj.calls()) or any(proj.blocks[b]["t"]["k"] == "switch" for b in proj.live):
        return None
    rets = [st for b in sorted(proj.live) for st in proj.blocks[b]["s"] if st["lhs"]["l"] == 0 and not st["lhs"]["p"]]
    if len(rets) != 1 or rets[0]["rv"]["k"] != "use":
        return None
    pe = str(proj.deep(rets[0]["rv"]["a"]))
    if "('arg', 2)" not in pe or "'1'" not in pe:
        return None
    table = {}
    for row in tree["es"]:
        if row.get("k") != "tup" or len(row["es"]) != 2 or row["es"][0].get("k") != "lit" or not row["es"][0]["v"].startswith("Str(") or row["es"][1].get("k") != "path":
            return None
        table.setdefault(lit_str(row["es"][0]["v"]), row["es"][1]["res"].split("::")[-1])
    return table or None


def find_matches(fn, scrut_ty_contains=None, scrut_contains=None):
    out = []
    for m in fn.matches:
        if scrut_ty_contains and scrut_ty_contains not in m["scrut_ty"]:
            continue
        if scrut_contains and scrut_contains not in m["scrut"]:
            continue
        out.append(m)
    return out


# ---------------------------------------------------------------------------------- finite-domain partial evaluation

def _enum_eq(fn, args, known):
    from .panics import place_sig
    names = []
    for a in args:
        e = fn.deep(a)
        while e[0] in ("ref", "deref"):
            e = e[1]
        if e[0] == "agg" and not e[3]:
            names.append(e[2])
        elif e[0] == "var" and e[1] in known:
            names.append(known[e[1]])
        else:
            pl = (a.get("move") or a.get("copy")) if isinstance(a, dict) else None
            sig = None
            if pl is not None:
                # follow one reference: _x = &*op
                d = fn.whole_defs(pl["l"]) if not pl["p"] else []
                if len(d) == 1 and d[0][1] != "t" and d[0][2]["rv"]["k"] == "ref":
                    sig = place_sig(fn, d[0][2]["rv"]["of"])
            if sig in known:
                names.append(known[sig])
            else:
                return None
    return names[0] == names[1]


PEVAL_PROG = None      # set by core.run_check: the Program whose bodies a call may be followed into (one level, pure helpers)


def _callee_constant(fn, t, known, depth):
    """A call to a crate-local helper that is handed a place whose variant is fixed: if every returning path of the helper
    yields the same integer/bool constant, that constant (else None)."""
    from .panics import place_sig
    if PEVAL_PROG is None or depth >= 1:
        return None
    cal = norm(t.get("res") or t.get("callee"))
    g = PEVAL_PROG.fns.get(cal) if cal else None
    if g is None or not g.file.startswith("src/") or len(g.blocks) > 40:
        return None
    sub = {}
    for i, a in enumerate(t.get("args", [])):
        pl = (a.get("move") or a.get("copy")) if isinstance(a, dict) else None
        if pl is None:
            continue
        # the argument is the place itself or a fresh reference to it
        cand = [pl]
        cur, hops = pl, 0
        while cur is not None and hops < 4:
            nxt = None
            if all(e == "*" for e in cur["p"]):
                for (bi, k, st) in fn.whole_defs(cur["l"]):
                    if k != "t" and st["rv"]["k"] == "ref":
                        nxt = st["rv"]["of"]
                    elif k != "t" and st["rv"]["k"] == "use" and isinstance(st["rv"]["a"], dict) and (st["rv"]["a"].get("copy") or st["rv"]["a"].get("move")):
                        nxt = st["rv"]["a"].get("copy") or st["rv"]["a"].get("move")
            if nxt is not None:
                cand.append(nxt)
            cur, hops = nxt, hops + 1
        for c in cand:
            sig = place_sig(fn, c)
            if sig in known and i + 1 <= g.argc:
                pname = g.locals[i + 1]["name"]
                if pname:
                    sub[pname] = known[sig]
    if not sub:
        return None
    paths = peval(g, 0, sub, max_paths=60, max_steps=4000, _depth=depth + 1)
    vals = set()
    for p_ in paths:
        if p_["end"] == "return":
            vals.add(p_.get("ret"))
        elif p_["end"] in ("panic", "unreachable"):
            continue
        else:
            return None
    if len(vals) == 1 and isinstance(next(iter(vals)), int):
        return next(iter(vals))
    return None


def peval(fn, start, known, max_paths=400, max_steps=60000, _depth=0):
    """Walk the MIR from block `start` with the discriminants of some places fixed.
    known: {place_sig: variant name}; a `discr(place)` whose place_sig is in `known` evaluates to that variant's
    discriminant, bool/int constants are propagated, every other switch forks.
    Returns a list of paths: dict(end='panic'|'return'|'loop'|'budget', block, events=[...]) where events are
    ('call', callee, block) / ('bin', op, a_text, b_text, block) / ('agg', adt, variant, block) / ('ret', text)."""
    from .panics import place_sig
    out = []
    work = [(start, {}, (), frozenset(), {})]
    steps = 0
    while work:
        b, env, events, seen, wenv = work.pop()
        env = dict(env)
        wenv = dict(wenv)
        events = list(events)
        while True:
            steps += 1
            if steps > max_steps or len(out) > max_paths:
                out.append(dict(end="budget", block=b, events=events))
                return out
            if b in seen:
                out.append(dict(end="loop", block=b, events=events))
                break
            seen = seen | {b}
            blk = fn.blocks[b]
            for st in blk["s"]:
                lhs = st["lhs"]
                rv = st["rv"]
                val = None
                k = rv["k"]
                wrapped = None      # a wrapper value (Ok/Err/Some/None/Continue/Break) with a known payload
                if k == "discr":
                    sig = place_sig(fn, rv["of"])
                    if sig in known:
                        for dv, name in rv["vars"]:
                            if name == known[sig]:
                                val = ("c", dv)
                    # a discriminant can also be fixed by the *type* it is read from ("@UnaryOp": "Not"), for scrutinees that
                    # only exist as unnamed temporaries (`match (op, v)`)
                    tkey = "@" + str(rv.get("ty", "")).split("<")[0].split("::")[-1]
                    if val is None and tkey in known:
                        for dv, name in rv["vars"]:
                            if name == known[tkey]:
                                val = ("c", dv)
                    w = wenv.get(rv["of"]["l"]) if not rv["of"]["p"] else None
                    if val is None and w is not None:
                        for dv, name in rv["vars"]:
                            if name == w[0]:
                                val = ("c", dv)
                elif k == "use":
                    val = _const_of(fn, rv["a"], env)
                    if val is not None:
                        val = ("c", val[1]) if isinstance(val[1], int) else None
                    pl_ = (rv["a"].get("copy") or rv["a"].get("move")) if isinstance(rv["a"], dict) else None
                    if pl_ is not None and not pl_["p"] and pl_["l"] in wenv:
                        wrapped = wenv[pl_["l"]]
                    elif pl_ is not None and pl_["l"] in wenv and len(pl_["p"]) == 2 and isinstance(pl_["p"][0], dict) and pl_["p"][0].get("as") == wenv[pl_["l"]][0] and isinstance(pl_["p"][1], dict) and str(pl_["p"][1].get("f")) == "0":
                        pay = wenv[pl_["l"]][1]
                        if pay is not None and isinstance(pay[1], int):
                            val = ("c", pay[1])
                elif k == "un" and rv["op"] == "Not":
                    v = _const_of(fn, rv["a"], env)
                    if v and v[0] == "c" and v[1] in (0, 1):
                        val = ("c", 1 - v[1])
                elif k == "bin":
                    a = show(fn.expr(rv["a"], 2))
                    bb = show(fn.expr(rv["b"], 2))
                    events.append(("bin", rv["op"], a, bb, b))
                    va = _const_of(fn, rv["a"], env)
                    vb = _const_of(fn, rv["b"], env)
                    if va and vb and isinstance(va[1], int) and isinstance(vb[1], int) and rv["op"] in ("Eq", "Ne"):
                        val = ("c", int((va[1] == vb[1]) == (rv["op"] == "Eq")))
                elif k == "agg":
                    events.append(("agg", norm(rv["adt"]), rv["variant"], b, tuple(show(fn.expr(a, 2)) for a in rv["ops"])))
                    if rv["variant"] in ("Ok", "Err", "Some", "None", "Continue", "Break") and len(rv["ops"]) <= 1:
                        wrapped = (rv["variant"], _const_of(fn, rv["ops"][0], env) if rv["ops"] else None)
                if not lhs["p"]:
                    if val is None:
                        env.pop(lhs["l"], None)
                    else:
                        env[lhs["l"]] = ("c", val[1], str(val[1]))
                    if wrapped is None:
                        wenv.pop(lhs["l"], None)
                    else:
                        wenv[lhs["l"]] = wrapped
            t = blk["t"]
            k = t["k"]
            if k == "return":
                r0 = env.get(0)
                out.append(dict(end="return", block=b, events=events, ret=(r0[1] if r0 and isinstance(r0[1], int) else None)))
                break
            if k in ("goto", "drop", "assert"):
                b = t["t"]
                continue
            if k == "call":
                cal = norm(t.get("res") or t.get("callee")) or "?"
                events.append(("call", cal, b, tuple(show(fn.expr(a, 3)) for a in t.get("args", [])), t.get("args", [])))
                if t["t"] is None:
                    out.append(dict(end="panic", block=b, events=events))
                    break
                if not t["dest"]["p"]:
                    env.pop(t["dest"]["l"], None)
                    wenv.pop(t["dest"]["l"], None)
                    if cal.endswith("::branch") and t.get("args"):
                        apl = (t["args"][0].get("move") or t["args"][0].get("copy")) if isinstance(t["args"][0], dict) else None
                        if apl is not None and not apl["p"] and apl["l"] in wenv:
                            w = wenv[apl["l"]]
                            if w[0] in ("Ok", "Some"):
                                wenv[t["dest"]["l"]] = ("Continue", w[1])
                            elif w[0] in ("Err", "None"):
                                wenv[t["dest"]["l"]] = ("Break", w[1])
                    # derived PartialEq on a fieldless enum whose discriminant is fixed: x == Enum::Variant
                    if (cal.endswith("PartialEq>::eq") or cal.endswith("PartialEq>::ne")) and len(t.get("args", [])) == 2:
                        r = _enum_eq(fn, t["args"], known)
                        if r is not None:
                            r = r if cal.endswith("::eq") else (not r)
                            env[t["dest"]["l"]] = ("c", int(r), str(int(r)))
                    cv = _callee_constant(fn, t, known, _depth)
                    if cv is not None:
                        env[t["dest"]["l"]] = ("c", cv, str(cv))
                    # `cond.then_some(v)` is `if cond { Some(v) } else { None }`: modelled like the aggregates it stands for
                    if cal.endswith("bool::then_some") or cal.endswith("<impl bool>::then_some") or cal.split("::")[-1] == "then_some":
                        args_ = t.get("args", [])
                        cnd = _const_of(fn, args_[0], env) if args_ else None
                        pay = _const_of(fn, args_[1], env) if len(args_) > 1 else None
                        ptxt = show(fn.expr(args_[1], 2)) if len(args_) > 1 else "?"
                        if cnd is not None and cnd[0] == "c" and cnd[1] in (0, 1):
                            outcomes = [cnd[1]]
                        else:
                            outcomes = [1, 0]
                        for oc in outcomes[1:]:
                            ev2 = list(events) + [("agg", "std::option::Option", "None", b, ())]
                            w2 = dict(wenv)
                            w2[t["dest"]["l"]] = ("None", None)
                            work.append((t["t"], dict(env), tuple(ev2), seen, w2))
                        if outcomes[0] == 1:
                            events.append(("agg", "std::option::Option", "Some", b, (ptxt,)))
                            wenv[t["dest"]["l"]] = ("Some", pay)
                        else:
                            events.append(("agg", "std::option::Option", "None", b, ()))
                            wenv[t["dest"]["l"]] = ("None", None)
                b = t["t"]
                continue
            if k == "switch":
                v = _const_of(fn, t["d"], env)
                if v is not None and v[0] == "c" and isinstance(v[1], int):
                    nxt = None
                    for val2, tgt in t["ts"]:
                        if val2 == v[1]:
                            nxt = tgt
                    b = nxt if nxt is not None else t["else"]
                    continue
                tg = []
                for _, tgt in t["ts"]:
                    if tgt not in tg:
                        tg.append(tgt)
                if t["else"] not in tg and fn.blocks[t["else"]]["t"]["k"] != "unreachable":
                    tg.append(t["else"])
                for tgt in tg[1:]:
                    work.append((tgt, env, tuple(events), seen, wenv))
                b = tg[0]
                continue
            if k == "unreachable":
                out.append(dict(end="unreachable", block=b, events=events))
                break
            out.append(dict(end="?" + k, block=b, events=events))
            break
    return out


# ---------------------------------------------------------------------------------- HIR expression evaluation (three-valued)

UNKNOWN = None


def span_inside(inner, outer):
    return (inner[0], inner[1]) >= (outer[0], outer[1]) and (inner[2], inner[3]) <= (outer[2], outer[3])


def match_by_span(fn, span):
    for m in fn.matches:
        if m.get("span") == span:
            return m
    return None


def hir_eval(fn, t, env):
    """Evaluate an exported HIR expression tree over abstract values; returns a value or UNKNOWN.
    Values: ('V', name, [args]) enum values, ('T', [..]) tuples, bool, int, ('S', text)."""
    if t is None:
        return UNKNOWN
    k = t.get("k")
    if k == "path":
        r = t["res"]
        if r.startswith("local:"):
            return env.get(r[6:], UNKNOWN)
        last = r.split("::")[-1]
        if last and last[0].isupper():
            return ("V", last, [])
        return UNKNOWN
    if k == "lit":
        v = t["v"]
        if v.startswith("Bool("):
            return v == "Bool(true)"
        if v.startswith("Int("):
            import re as _re
            m = _re.search(r"Pu128\((\d+)\)", v)
            return int(m.group(1)) if m else UNKNOWN
        if v.startswith("Str("):
            return ("S", lit_str(v))
        return UNKNOWN
    if k == "call":
        f = t["f"]
        if f.get("k") == "path":
            last = f["res"].split("::")[-1]
            if last and last[0].isupper():
                args = [hir_eval(fn, a, env) for a in t["args"]]
                if any(a is UNKNOWN for a in args):
                    return UNKNOWN
                return ("V", last, args)
        return UNKNOWN
    if k == "tup":
        vals = [hir_eval(fn, a, env) for a in t["es"]]
        if any(v is UNKNOWN for v in vals):
            return UNKNOWN
        return ("T", vals)
    if k in ("ref", "cast"):
        return hir_eval(fn, t["e"], env)
    if k == "un":
        v = hir_eval(fn, t["e"], env)
        if t["op"] == "Not":
            return UNKNOWN if v is UNKNOWN else (not v)
        if t["op"] == "Deref":
            return v
        return UNKNOWN
    if k == "bin":
        op = t["op"]
        if op in ("And", "Or"):
            l = hir_eval(fn, t["l"], env)
            if op == "And" and l is False:
                return False
            if op == "Or" and l is True:
                return True
            # `let` patterns on the left bind names for the right-hand side
            env2 = env
            if t["l"].get("k") == "let" and l is True:
                env2 = dict(env)
                bind_pat(t["l"]["pat"], hir_eval(fn, t["l"]["init"], env), env2)
            elif t["l"].get("k") == "bin":
                env2 = dict(env)
                collect_let_bindings(fn, t["l"], env, env2)
            r = hir_eval(fn, t["r"], env2)
            if op == "And":
                if r is False:
                    return False
                return True if (l is True and r is True) else UNKNOWN
            if r is True:
                return True
            return False if (l is False and r is False) else UNKNOWN
        l = hir_eval(fn, t["l"], env)
        r = hir_eval(fn, t["r"], env)
        if l is UNKNOWN or r is UNKNOWN:
            return UNKNOWN
        if op == "Eq":
            return l == r
        if op == "Ne":
            return l != r
        return UNKNOWN
    if k == "let":
        v = hir_eval(fn, t["init"], env)
        if v is UNKNOWN:
            return UNKNOWN
        return pat_match(t["pat"], v)
    if k == "match":
        m = match_by_span(fn, t["span"])
        if m is None:
            return UNKNOWN
        v = hir_eval(fn, m["scrut_tree"], env)
        if v is UNKNOWN:
            return UNKNOWN
        arms = first_arm(m, v)
        if len(arms) != 1:
            return UNKNOWN
        return hir_eval(fn, m["arms"][arms[0]]["body_tree"], env)
    if k == "mcall":
        recv = hir_eval(fn, t["recv"], env)
        if recv is not UNKNOWN and isinstance(recv, tuple) and recv[0] == "V":
            if t["name"] == "is_some":
                return recv[1] == "Some"
            if t["name"] == "is_none":
                return recv[1] == "None"
        return UNKNOWN
    return UNKNOWN


def bind_pat(pat, val, env):
    """Bind names of a pattern that is known to match `val`."""
    if val is UNKNOWN or val is None:
        return
    k = pat["k"]
    if k == "bind":
        env[pat["name"]] = val
        if pat.get("sub"):
            bind_pat(pat["sub"], val, env)
    elif k == "ctor" and isinstance(val, tuple) and val[0] == "V":
        for p, v in zip(pat["subs"], val[2]):
            bind_pat(p, v, env)
    elif k == "tuple" and isinstance(val, tuple) and val[0] == "T":
        for p, v in zip(pat["subs"], val[1]):
            bind_pat(p, v, env)


def collect_let_bindings(fn, t, env, env2):
    """Bindings introduced by `let` conditions on the left spine of an && chain."""
    if t.get("k") == "let":
        v = hir_eval(fn, t["init"], env2)
        if v is not UNKNOWN and pat_match(t["pat"], v):
            bind_pat(t["pat"], v, env2)
    elif t.get("k") == "bin" and t["op"] == "And":
        collect_let_bindings(fn, t["l"], env, env2)
        collect_let_bindings(fn, t["r"], env, env2)

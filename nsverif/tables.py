"""T-TABLE / T-ARM helpers: finite tables extracted from the shape of match code."""
from .mir import norm, show


def ret_values(fn, start, stop=()):
    """All values assigned to the return place in blocks reachable from `start`."""
    out = []
    for b in sorted(fn.reach([start], removed_nodes=stop)):
        for s in fn.blocks[b]["s"]:
            if s["lhs"]["l"] == 0 and not s["lhs"]["p"]:
                out.append((b, fn.rvalue_expr(s["rv"], 4)))
        t = fn.blocks[b]["t"]
        if t["k"] == "call" and t["dest"]["l"] == 0 and not t["dest"]["p"]:
            out.append((b, ("call", norm(t.get("res") or t.get("callee")), [fn.expr(a, 3) for a in t["args"]], b)))
    return out


def entry_discr_switch(fn, arg=1):
    """First switch (in dominator order from entry) on the discriminant of argument `arg` (possibly behind a deref)."""
    for S in sorted(fn.live):
        if fn.blocks[S]["t"]["k"] != "switch":
            continue
        si = fn.switch_info(S)
        if si["kind"] == "discr" and si["of"]["l"] == arg:
            return S, si
    return None, None


def _const_of(fn, o, env):
    if isinstance(o, dict):
        if "const" in o:
            if o.get("int") is not None:
                return ("c", o["int"], o["const"])
            return ("c", o["const"], o["const"])
        pl = o.get("copy") or o.get("move")
        if pl is not None and not pl["p"]:
            return env.get(pl["l"])
    return None


def abstract_eval(fn, arg, discr_val, max_paths=64):
    """Constant propagation through an acyclic table function with the discriminant of argument
    `arg` fixed to `discr_val`.  Returns the set of texts the return place can hold."""
    results = set()
    work = [(0, {})]
    steps = 0
    while work and steps < 4000:
        b, env = work.pop()
        env = dict(env)
        while True:
            steps += 1
            if steps > 4000:
                results.add("?budget")
                break
            blk = fn.blocks[b]
            for st in blk["s"]:
                lhs = st["lhs"]
                rv = st["rv"]
                val = None
                if rv["k"] == "discr" and rv["of"]["l"] == arg:
                    val = ("c", discr_val, str(discr_val))
                elif rv["k"] == "use":
                    val = _const_of(fn, rv["a"], env)
                    if val is None and lhs["l"] == 0:
                        val = ("s", show(fn.expr(rv["a"], 3)))
                elif rv["k"] == "un" and rv["op"] == "Not":
                    v = _const_of(fn, rv["a"], env)
                    if v and v[0] == "c" and v[1] in (0, 1):
                        val = ("c", 1 - v[1], "true" if v[1] == 0 else "false")
                elif rv["k"] == "agg":
                    val = ("s", short_val(fn.rvalue_expr(rv, 3)))
                else:
                    val = ("s", short_val(fn.rvalue_expr(rv, 2))) if lhs["l"] == 0 else None
                if not lhs["p"]:
                    if val is None:
                        env.pop(lhs["l"], None)
                    else:
                        env[lhs["l"]] = val
            t = blk["t"]
            k = t["k"]
            if k == "return":
                v = env.get(0)
                if v is None:
                    results.add("?")
                elif v[0] == "c":
                    results.add(v[2] if isinstance(v[2], str) else str(v[2]))
                else:
                    results.add(v[1])
                break
            if k == "goto":
                b = t["t"]
                continue
            if k in ("drop", "assert"):
                b = t["t"]
                continue
            if k == "call":
                if t["t"] is None:
                    results.add("!panic")
                    break
                cal = norm(t.get("res") or t.get("callee")) or "?"
                if not t["dest"]["p"]:
                    env[t["dest"]["l"]] = ("s", "call:" + cal.split("::")[-1])
                b = t["t"]
                continue
            if k == "switch":
                v = _const_of(fn, t["d"], env)
                if v is not None and v[0] == "c" and isinstance(v[1], int):
                    nxt = None
                    for val, tgt in t["ts"]:
                        if val == v[1]:
                            nxt = tgt
                    b = nxt if nxt is not None else t["else"]
                    continue
                # unknown: fork
                tg = [tgt for _, tgt in t["ts"]] + [t["else"]]
                for tgt in tg[1:]:
                    if len(work) < max_paths:
                        work.append((tgt, env))
                b = tg[0]
                continue
            results.add("?" + k)
            break
    return sorted(results)


def enum_discrs(prog, enum_path):
    a = prog.adt(enum_path)
    return [(v["name"], v["discr"]) for v in a["variants"]]


def mir_enum_table(fn, arg=1, prog=None, enum_path=None):
    """{variant: [result text,...]} for a function that dispatches on the discriminant of its argument."""
    S, si = entry_discr_switch(fn, arg)
    if S is None:
        return None
    table = {}
    for val, name in si["vars"].items():
        table[name] = abstract_eval(fn, arg, val)
    return table


def short_val(e):
    k = e[0]
    if k == "const":
        return str(e[1]) if e[2] is None else str(e[1])
    if k == "agg":
        if e[3]:
            return "%s::%s(%s)" % (e[1].split("::")[-1], e[2], ",".join(short_val(x) for x in e[3]))
        return "%s::%s" % (e[1].split("::")[-1], e[2])
    if k == "call":
        return "call:" + e[1].split("::")[-1]
    return show(e)


# ---------------------------------------------------------------------------------- HIR patterns

def pat_match(pat, val):
    """Does HIR pattern `pat` match abstract value `val`?
    val: ('V', path_last_segment, [subvals]) for enum variants / unit paths, ('T', [vals]) tuples,
         ('S', "text") string literal, ('I', int), ('B', bool), ('?',) unknown (matches only wild/bind)."""
    k = pat["k"]
    if k == "_":
        return True
    if k == "bind":
        return True if pat.get("sub") is None else pat_match(pat["sub"], val)
    if k == "or":
        return any(pat_match(p, val) for p in pat["subs"])
    if k == "tuple":
        if val[0] != "T":
            return False
        subs = pat["subs"]
        dd = pat.get("dd")
        vals = val[1]
        if dd is None:
            return len(subs) == len(vals) and all(pat_match(p, v) for p, v in zip(subs, vals))
        head, tail = subs[:dd], subs[dd:]
        return all(pat_match(p, v) for p, v in zip(head, vals[:len(head)])) and all(
            pat_match(p, v) for p, v in zip(tail, vals[len(vals) - len(tail):]))
    if k in ("ctor", "struct", "path"):
        if val[0] != "V":
            return False
        last = pat["path"].split("::")[-1]
        if last != val[1]:
            return False
        if k == "ctor":
            subs = pat["subs"]
            dd = pat.get("dd")
            vals = val[2]
            if dd is None:
                return len(subs) == len(vals) and all(pat_match(p, v) for p, v in zip(subs, vals))
            head, tail = subs[:dd], subs[dd:]
            return all(pat_match(p, v) for p, v in zip(head, vals[:len(head)])) and all(
                pat_match(p, v) for p, v in zip(tail, vals[len(vals) - len(tail):]))
        return True
    if k == "lit":
        v = pat["v"]
        if val[0] == "S":
            return v.startswith("Str(") and lit_str(v) == val[1]
        if val[0] == "I":
            return v.startswith("Int(") and int(v.split("(")[1].split(",")[0].rstrip(")").replace("Pu128", "").strip("( )")) == val[1]
        if val[0] == "B":
            return v == ("Bool(%s)" % ("true" if val[1] else "false"))
        return False
    return False


def lit_str(v):
    # 'Str("shout", Cooked)' -> shout
    a = v.index('"')
    b = v.rindex('"')
    return v[a + 1:b].encode().decode("unicode_escape") if "\\" in v[a + 1:b] else v[a + 1:b]


def first_arm(match, val):
    """Index of the first arm matching val; arms with guards are returned as 'maybe' together with later ones.
    -> list of candidate arm indexes (first definite match terminates the list)."""
    out = []
    for i, arm in enumerate(match["arms"]):
        if pat_match(arm["pat"], val):
            out.append(i)
            if arm.get("guard") is None:
                return out
    return out


def str_patterns(pat):
    """All string literals of a pattern (through or-patterns)."""
    if pat["k"] == "lit" and pat["v"].startswith("Str("):
        return [lit_str(pat["v"])]
    if pat["k"] == "or":
        out = []
        for p in pat["subs"]:
            out += str_patterns(p)
        return out
    return []


def tree_paths(t, out=None):
    """All resolved paths mentioned in an exported HIR expression tree."""
    if out is None:
        out = []
    if isinstance(t, dict):
        if t.get("k") == "path":
            out.append(t["res"])
        if t.get("k") == "struct":
            out.append(t["path"])
        for v in t.values():
            tree_paths(v, out)
    elif isinstance(t, list):
        for v in t:
            tree_paths(v, out)
    return out


def hir_str_table(fn):
    """For a `match name { "lit" => Some(Path) ... _ => None }` function: {literal: last path segment}."""
    for m in fn.matches:
        table = {}
        for arm in m["arms"]:
            lits = str_patterns(arm["pat"])
            if not lits:
                continue
            paths = [p for p in tree_paths(arm["body_tree"]) if not p.endswith("::Some") and "Option" not in p]
            tgt = paths[-1].split("::")[-1] if paths else None
            for l in lits:
                table[l] = tgt
        if table:
            return table
    return None


def find_matches(fn, scrut_ty_contains=None, scrut_contains=None):
    out = []
    for m in fn.matches:
        if scrut_ty_contains and scrut_ty_contains not in m["scrut_ty"]:
            continue
        if scrut_contains and scrut_contains not in m["scrut"]:
            continue
        out.append(m)
    return out

"""Query layer over the exported MIR: CFG, dominators, edge dominance, constraints, def-use,
expression-tree reconstruction, call sites.  Standard library only."""
import re
from collections import defaultdict

PANIC_FNS = {
    "std::rt::panic_fmt", "core::panicking::panic", "core::panicking::panic_fmt",
    "core::panicking::unreachable_display", "core::panicking::assert_failed",
    "core::panicking::panic_explicit", "std::rt::begin_panic", "core::panicking::panic_display",
    "core::panicking::panic_nounwind", "core::option::expect_failed", "core::result::unwrap_failed",
    "core::option::unwrap_failed", "core::panicking::panic_bounds_check",
    "core::panicking::panic_const::panic_const_add_overflow",
    "core::slice::index::slice_index_fail", "core::str::slice_error_fail",
    "std::process::abort", "core::intrinsics::abort", "std::alloc::handle_alloc_error",
    "core::panicking::assert_failed_inner", "core::panicking::panic_nounwind_fmt",
    "core::hint::unreachable_unchecked::precondition_check",
}


def _match_angle(p, i):
    """p[i] == '<'; returns index of the matching '>' (ignoring '->')."""
    depth = 0
    j = i
    n = len(p)
    while j < n:
        c = p[j]
        if c == "<":
            depth += 1
        elif c == ">" and not (j > 0 and p[j - 1] == "-"):
            depth -= 1
            if depth == 0:
                return j
        j += 1
    return n - 1


def _strip_generics(p):
    out = []
    i = 0
    n = len(p)
    while i < n:
        c = p[i]
        if c == "<":
            j = _match_angle(p, i)
            # drop a '::' that introduced the group (turbofish form)
            if len(out) >= 2 and out[-1] == ":" and out[-2] == ":":
                out.pop()
                out.pop()
            i = j + 1
            continue
        out.append(c)
        i += 1
    return "".join(out)


def _top_level_find(s, needle):
    depth = 0
    i = 0
    while i < len(s):
        c = s[i]
        if c == "<":
            depth += 1
        elif c == ">" and not (i > 0 and s[i - 1] == "-"):
            depth -= 1
        elif depth == 0 and s.startswith(needle, i):
            return i
        i += 1
    return -1


_norm_cache = {}


def norm(p):
    """Normalise a def path: drop generic arguments and lifetimes, keep `<T as Trait>::m` form."""
    if p is None:
        return None
    r = _norm_cache.get(p)
    if r is not None:
        return r
    q = p
    if q.startswith("<"):
        j = _match_angle(q, 0)
        inner, rest = q[1:j], q[j + 1:]
        k = _top_level_find(inner, " as ")
        if k >= 0:
            r = "<" + norm(inner[:k]) + " as " + norm(inner[k + 4:]) + ">" + _strip_generics(rest)
        else:
            r = "<" + norm(inner) + ">" + _strip_generics(rest)
    else:
        r = _strip_generics(q)
    r = r.replace("&'_ ", "&").replace("&'a ", "&")
    _norm_cache[p] = r
    return r


def parent_fn(fid):
    """Closures are merged into their parent body for call-graph purposes."""
    return re.sub(r"(::\{closure#\d+\})+$", "", fid)


class Call:
    __slots__ = ("fn", "block", "callee", "declared", "args", "dest", "target", "line", "exp", "raw", "gargs", "unsafe")

    def __init__(self, fn, block, t, at):
        self.fn = fn
        self.block = block
        self.raw = t
        self.declared = norm(t.get("callee"))
        self.callee = norm(t.get("res") or t.get("callee"))
        self.args = t.get("args", [])
        self.dest = t.get("dest")
        self.target = t.get("t")
        self.line = at["line"]
        self.exp = at.get("exp", False)
        self.gargs = t.get("res_args") or t.get("gargs") or []
        self.unsafe = t.get("unsafe", False)

    def __repr__(self):
        return "Call(%s@bb%d L%d)" % (self.callee, self.block, self.line)


class Fn:
    def __init__(self, f):
        self.f = f
        self.raw_id = f["id"]
        self.id = norm(f["id"])
        self.kind = f["kind"]
        self.file = f["at"]["file"]
        self.line = f["at"]["line"]
        self.from_expansion = f["at"].get("exp", False)
        self.is_unsafe = f.get("unsafe", False)
        self.vis = f.get("vis", "")
        self.m = f["mir"]
        self.blocks = self.m["blocks"]
        self.locals = self.m["locals"]
        self.argc = self.m["argc"]
        n = len(self.blocks)
        self.n = n
        self.succ = [[] for _ in range(n)]
        for i, b in enumerate(self.blocks):
            t = b["t"]
            k = t["k"]
            if k == "goto":
                self.succ[i] = [("g", t["t"])]
            elif k == "switch":
                self.succ[i] = [(v, tt) for v, tt in t["ts"]] + [("else", t["else"])]
            elif k == "call":
                if t["t"] is not None:
                    self.succ[i] = [("c", t["t"])]
            elif k in ("drop", "assert"):
                self.succ[i] = [("c", t["t"])]
        self.pred = [[] for _ in range(n)]
        for i in range(n):
            for lab, j in self.succ[i]:
                self.pred[j].append((i, lab))
        self._dom = None
        self._pdom = None
        self._defs = None
        self._reach0 = None
        self._calls = None
        self.matches = f.get("matches", [])
        self.ifs = f.get("ifs", [])

    # ------------------------------------------------------------------ graph
    def reach(self, starts, removed_nodes=(), removed_edges=()):
        seen = set()
        st = list(starts)
        rn = set(removed_nodes)
        re_ = set(removed_edges)
        while st:
            x = st.pop()
            if x in seen or x in rn:
                continue
            seen.add(x)
            for lab, j in self.succ[x]:
                if re_ and (x, lab) in re_:
                    continue
                st.append(j)
        return seen

    def reach_threaded(self, starts, result_locals, removed_nodes=(), removed_edges=()):
        """Reachability that follows one Result through its `?`: along a path on which one of `result_locals` (and plain
        copies of it) was last assigned `Err{..}` / `Ok{..}`, the switch on `Try::branch(<that local>)` is left only through
        the matching outcome (Break / Continue).  A spliced helper returns its Result through a join block; without this the
        Err paths of the helper appear to continue into the code after the `?`."""
        alias = set(result_locals)
        for _ in range(3):
            for b in self.live:
                for st in self.blocks[b]["s"]:
                    a = st["rv"].get("a") if st["rv"]["k"] == "use" else None
                    pl = (a.get("move") or a.get("copy")) if isinstance(a, dict) else None
                    if pl is not None and not pl["p"] and pl["l"] in alias and not st["lhs"]["p"]:
                        alias.add(st["lhs"]["l"])
        branch_dests = set()
        for c in self.calls():
            if (c.declared or c.callee or "").endswith("::branch") and c.args and c.dest is not None:
                pl = c.args[0].get("move") or c.args[0].get("copy")
                if pl is not None and pl["l"] in alias:
                    branch_dests.add(c.dest["l"])
        sw = {}
        for S in self.live:
            if self.blocks[S]["t"]["k"] != "switch":
                continue
            si = self.switch_info(S)
            if si["kind"] == "discr" and si["of"]["l"] in branch_dests and not si["of"]["p"]:
                sw[S] = si
        rn, re_ = set(removed_nodes), set(removed_edges)
        seen = set()
        st_ = [(b, None) for b in starts]
        while st_:
            b, tag = st_.pop()
            if (b, tag) in seen or b in rn:
                continue
            seen.add((b, tag))
            for s in self.blocks[b]["s"]:
                if not s["lhs"]["p"] and s["lhs"]["l"] in alias and s["rv"]["k"] == "agg" and s["rv"].get("variant") in ("Ok", "Err"):
                    tag = s["rv"]["variant"]
            t = self.blocks[b]["t"]
            if t["k"] == "call" and t.get("dest") is not None and not t["dest"]["p"] and t["dest"]["l"] in alias:
                tag = None      # result of a real call: either outcome
            for lab, j in self.succ[b]:
                if (b, lab) in re_:
                    continue
                if b in sw and tag is not None:
                    want = "Break" if tag == "Err" else "Continue"
                    if sw[b]["vars"].get(lab) != want:
                        continue
                st_.append((j, None if b in sw else tag))
        return {b for b, _t in seen}

    def reach_from_succ(self, b, removed_nodes=(), removed_edges=()):
        """Blocks reachable from b by taking at least one edge."""
        return self.reach([j for lab, j in self.succ[b] if (b, lab) not in set(removed_edges)], removed_nodes, removed_edges)

    @property
    def live(self):
        if self._reach0 is None:
            self._reach0 = self.reach([0])
        return self._reach0

    def dom(self):
        """block -> bitmask of dominators (only for blocks reachable from entry)."""
        if self._dom is not None:
            return self._dom
        live = self.live
        order = []
        seen = set()
        # reverse post-order
        stack = [(0, iter(self.succ[0]))]
        seen.add(0)
        post = []
        while stack:
            node, it = stack[-1]
            adv = False
            for lab, j in it:
                if j not in seen:
                    seen.add(j)
                    stack.append((j, iter(self.succ[j])))
                    adv = True
                    break
            if not adv:
                post.append(node)
                stack.pop()
        order = post[::-1]
        full = 0
        for i in live:
            full |= 1 << i
        dom = {i: full for i in live}
        dom[0] = 1
        changed = True
        while changed:
            changed = False
            for i in order:
                if i == 0:
                    continue
                new = full
                for p, _ in self.pred[i]:
                    if p in dom:
                        new &= dom[p]
                new |= 1 << i
                if new != dom[i]:
                    dom[i] = new
                    changed = True
        self._dom = dom
        return dom

    def dominates(self, a, b):
        d = self.dom()
        return b in d and bool(d[b] >> a & 1)

    def dominators(self, b):
        d = self.dom().get(b)
        if d is None:
            return []
        return [i for i in range(self.n) if d >> i & 1]

    def exits(self):
        return [i for i in self.live if self.blocks[i]["t"]["k"] == "return"]

    def must_pass(self, a_blocks, via, targets=None):
        """True iff every path from any block in a_blocks (after it) to targets (default: returns)
        passes through a block in `via`.  Returns (ok, witness_target)."""
        targets = set(self.exits() if targets is None else targets)
        r = set()
        for a in a_blocks:
            r |= self.reach([j for _, j in self.succ[a]], removed_nodes=via)
        bad = sorted(r & targets)
        return (not bad, bad[0] if bad else None)

    def path(self, src, dst, removed_nodes=(), removed_edges=()):
        """Shortest path src -> dst as list of blocks, or None."""
        from collections import deque
        rn = set(removed_nodes)
        re_ = set(removed_edges)
        prev = {src: None}
        dq = deque([src])
        while dq:
            x = dq.popleft()
            if x == dst:
                out = []
                while x is not None:
                    out.append(x)
                    x = prev[x]
                return out[::-1]
            for lab, j in self.succ[x]:
                if j in prev or j in rn or (x, lab) in re_:
                    continue
                prev[j] = x
                dq.append(j)
        return None

    # ------------------------------------------------------------------ edges / conditions
    def edge_dominated(self, P, S, labels):
        """Every path entry -> P takes one of the edges (S, lab) for lab in labels."""
        others = [(S, lab) for lab, _ in self.succ[S] if lab not in labels]
        # P must be unreachable when only the *other* edges of S may be used ... and S must dominate P.
        if not self.dominates(S, P):
            return False
        r = self.reach([0], removed_edges=[(S, lab) for lab in labels])
        return P not in r

    def allowed_labels(self, S, P):
        """Labels of switch S from which P is reachable without re-entering S."""
        out = []
        for lab, j in self.succ[S]:
            if P == j or P in self.reach([j], removed_nodes=[S]):
                out.append(lab)
        return out

    def constraints(self, P):
        """[(S, allowed_labels)] for every dominating switch whose outcome is restricted at P."""
        out = []
        for S in self.dominators(P):
            if S == P or self.blocks[S]["t"]["k"] != "switch":
                continue
            al = self.allowed_labels(S, P)
            if len(al) < len(self.succ[S]):
                out.append((S, al))
        return out

    def deciding(self, P):
        """Switch edges that lead to P through goto-only chains: [(S, label)]."""
        out = []
        seen = set()
        st = [P]
        while st:
            x = st.pop()
            if x in seen:
                continue
            seen.add(x)
            for p, lab in self.pred[x]:
                if p not in self.live:
                    continue
                k = self.blocks[p]["t"]["k"]
                if k == "switch":
                    out.append((p, lab))
                elif len(self.succ[p]) == 1:
                    st.append(p)
        return out

    # ------------------------------------------------------------------ defs / uses
    def defs(self):
        if self._defs is None:
            d = defaultdict(list)
            for i, b in enumerate(self.blocks):
                if i not in self.live:
                    continue
                for k, s in enumerate(b["s"]):
                    d[s["lhs"]["l"]].append((i, k, s))
                t = b["t"]
                if t["k"] == "call":
                    d[t["dest"]["l"]].append((i, "t", t))
            self._defs = d
        return self._defs

    def whole_defs(self, l):
        """Definitions that assign the whole local (no projection on the lhs)."""
        out = []
        for (i, k, s) in self.defs().get(l, []):
            pl = s["lhs"] if k != "t" else s["dest"]
            if not pl["p"]:
                out.append((i, k, s))
        return out

    def local_name(self, l):
        return self.locals[l]["name"]

    def local_ty(self, l):
        return self.locals[l]["ty"]

    def place_ty_root(self, pl):
        return self.locals[pl["l"]]["ty"]

    def place_str(self, pl):
        n = self.locals[pl["l"]]["name"] or ("_%d" % pl["l"])
        for e in pl["p"]:
            if e == "*":
                n = "(*" + n + ")"
            elif isinstance(e, dict) and "f" in e:
                n += "." + e["f"]
            elif isinstance(e, dict) and "as" in e:
                n += "@" + e["as"]
            elif isinstance(e, dict) and "idx" in e:
                n += "[_%d]" % e["idx"]
            elif isinstance(e, dict) and "cidx" in e:
                n += "[%d]" % e["cidx"]
            else:
                n += "?"
        return n

    # ------------------------------------------------------------------ calls
    def calls(self):
        if self._calls is None:
            out = []
            for i, b in enumerate(self.blocks):
                if i not in self.live:
                    continue
                t = b["t"]
                if t["k"] == "call":
                    out.append(Call(self, i, t, b["at"]))
            self._calls = out
        return self._calls

    def calls_to(self, *names, suffix=False):
        out = []
        for c in self.calls():
            if c.callee is None:
                continue
            for nme in names:
                if c.callee == nme or c.declared == nme or (suffix and (c.callee.endswith(nme) or (c.declared or "").endswith(nme))):
                    out.append(c)
                    break
        return out

    def panic_blocks(self):
        """Blocks ending in a diverging call (no return target)."""
        out = []
        for c in self.calls():
            if c.target is None:
                out.append(c)
        return out

    # ------------------------------------------------------------------ switches
    def switch_info(self, S, _hops=0):
        """Describe what switch S tests.
        -> dict(kind='discr', ty, vars{val:name}, of=place) | dict(kind='call', callee, call)
           | dict(kind='bin', op, a, b) | dict(kind='place', ...) | dict(kind='other')"""
        t = self.blocks[S]["t"]
        d = t["d"]
        pl = d.get("move") or d.get("copy") if isinstance(d, dict) else None
        if not pl:
            return {"kind": "const"}
        if pl["p"]:
            return {"kind": "place", "place": pl, "ty": self.locals[pl["l"]]["ty"], "str": self.place_str(pl)}
        defs = self.whole_defs(pl["l"])
        # `a && b` / a spliced helper returning `a && b`: the bool is a constant on the short-circuit paths and one computed
        # value otherwise (possibly behind plain copies such as `dest = move ret`).  On the outcome the constants cannot
        # produce, the switch is a test of that one value.
        pl_t, defs_t, hops = pl, defs, 0
        while len(defs_t) == 1 and defs_t[0][1] != "t" and defs_t[0][2]["rv"]["k"] == "use" and hops < 4:
            a = defs_t[0][2]["rv"]["a"]
            p2 = (a.get("copy") or a.get("move")) if isinstance(a, dict) else None
            if p2 is None or p2["p"] or not self.whole_defs(p2["l"]):
                break
            pl_t, defs_t, hops = p2, self.whole_defs(p2["l"]), hops + 1
        if len(defs_t) > 1 and "bool" in self.locals[pl_t["l"]]["ty"]:
            consts = [(bi, k, s) for (bi, k, s) in defs_t if k != "t" and s["rv"]["k"] == "use" and isinstance(s["rv"]["a"], dict) and s["rv"]["a"].get("int") in (0, 1)]
            rest = [d for d in defs_t if d not in consts]
            if consts and len(rest) == 1 and len({s["rv"]["a"]["int"] for (_b, _k, s) in consts}) == 1:
                cval = consts[0][2]["rv"]["a"]["int"]
                bi, k, s = rest[0]
                inner = None
                if k == "t":
                    inner = {"kind": "call", "callee": norm(s.get("res") or s.get("callee")), "call": s, "block": bi}
                elif s["rv"]["k"] == "bin":
                    inner = {"kind": "bin", "op": s["rv"]["op"], "a": s["rv"]["a"], "b": s["rv"]["b"], "block": bi, "idx": k}
                if inner is not None and (hops > 0 or self.locals[pl_t["l"]].get("inlined_from")):
                    # only for values that come out of a spliced helper: source-level `&&` chains keep their old reading
                    inner.update(threaded=True, weak_label=cval, local=pl_t["l"], defs=defs_t, name=self.local_name(pl_t["l"]))
                    return inner
        if len(defs) != 1:
            # bool local assigned constants in several arms (matches!/&&/||)
            return {"kind": "multi", "local": pl["l"], "defs": defs, "name": self.local_name(pl["l"])}
        bi, k, s = defs[0]
        if k == "t":
            return {"kind": "call", "callee": norm(s.get("res") or s.get("callee")), "call": s, "block": bi}
        rv = s["rv"]
        if rv["k"] == "discr":
            return {"kind": "discr", "ty": norm(rv["ty"]), "vars": {a: b for a, b in rv["vars"]}, "of": rv["of"], "block": bi}
        if rv["k"] == "bin":
            return {"kind": "bin", "op": rv["op"], "a": rv["a"], "b": rv["b"], "block": bi, "idx": k}
        if rv["k"] == "un":
            return {"kind": "un", "op": rv["op"], "a": rv["a"], "block": bi, "idx": k}
        if rv["k"] == "use":
            a = rv["a"]
            p2 = a.get("copy") or a.get("move") if isinstance(a, dict) else None
            if p2 is not None:
                # a condition that was given a name first (`let in_frame = frame.contains_ptr(p); if in_frame {..}`): a local
                # with one assignment is what it was assigned - the test is that call / comparison
                if not p2["p"] and _hops < 3:
                    d2 = self.whole_defs(p2["l"])
                    if len(d2) == 1 and (d2[0][1] == "t" or d2[0][2]["rv"]["k"] in ("bin", "un", "discr")) and "bool" in self.locals[p2["l"]]["ty"]:
                        b2, k2, s2 = d2[0]
                        if k2 == "t":
                            return {"kind": "call", "callee": norm(s2.get("res") or s2.get("callee")), "call": s2, "block": b2, "named": self.local_name(p2["l"])}
                        rv2 = s2["rv"]
                        if rv2["k"] == "bin":
                            return {"kind": "bin", "op": rv2["op"], "a": rv2["a"], "b": rv2["b"], "block": b2, "idx": k2, "named": self.local_name(p2["l"])}
                        if rv2["k"] == "un":
                            return {"kind": "un", "op": rv2["op"], "a": rv2["a"], "block": b2, "idx": k2, "named": self.local_name(p2["l"])}
                return {"kind": "place", "place": p2, "ty": self.locals[p2["l"]]["ty"], "str": self.place_str(p2), "block": bi}
        return {"kind": "other", "rv": rv}

    def constraints_threaded(self, b, _depth=0):
        """constraints(b), plus what a tested *flag* stands for: where a constraint is a switch on a bool local all of whose
        assignments are constants (`matches!(..)`, a named `a && b`), the flag has the tested value only if the last
        assignment executed was one of that value - so whatever constrains every such assignment constrains b as well."""
        out = list(self.constraints(b))
        if _depth > 2:
            return out
        for S, al in list(out):
            si = self.switch_info(S)
            defs = None
            if si["kind"] == "multi":
                defs = si.get("defs")
            elif si["kind"] == "place" and not si["place"]["p"] and "bool" in self.locals[si["place"]["l"]]["ty"]:
                defs = self.whole_defs(si["place"]["l"])
            if not defs or len(defs) < 2:
                continue
            if not all(k != "t" and st["rv"]["k"] == "use" and isinstance(st["rv"]["a"], dict) and st["rv"]["a"].get("int") in (0, 1) for (_b, k, st) in defs):
                continue
            truth = 1 if 0 not in al else 0
            setters = [b_ for (b_, _k, st) in defs if st["rv"]["a"]["int"] == truth]
            if not setters:
                continue
            common = None
            for b_ in setters:
                cs = {(S2, tuple(al2)) for S2, al2 in self.constraints_threaded(b_, _depth + 1)}
                # an or-pattern reaches one setter from several tests of the same value: none dominates, all decide
                dec = {}
                for S2, lab in self.deciding(b_):
                    dec.setdefault(S2, []).append(lab)
                cs |= {(S2, tuple(sorted(labs, key=str))) for S2, labs in dec.items()}
                common = cs if common is None else common & cs
            for S2, al2 in sorted(common or (), key=str):
                if (S2, list(al2)) not in out and S2 != S:
                    out.append((S2, list(al2)))
        return out

    # ------------------------------------------------------------------ expression trees
    def expr(self, o, depth=12, _seen=None):
        """Reconstruct a pure expression tree for an operand.
        ('const', text, int|None) | ('var', name) | ('local', n) | ('field', base, name) | ('deref', base)
        | ('index', base, idx) | ('bin', op, a, b) | ('un', op, a) | ('call', callee, [args]) | ('cast', a, ty)
        | ('len', a) | ('ref', a) | ('discr', a) | ('agg', adt, variant, [ops]) | ('phi', n)"""
        if not isinstance(o, dict):
            return ("other", str(o))
        if "const" in o:
            m = re.search(r"promoted\[(\d+)\]", o["const"])
            if m:
                v = self.promoted_value(int(m.group(1)))
                if v is not None:
                    return v
            return ("const", o["const"], o.get("int"))
        pl = o.get("copy") or o.get("move")
        if pl is None:
            return ("other", str(o))
        return self.place_expr(pl, depth, _seen)

    def promoted_value(self, n):
        """Value of a promoted constant (`&ExprClass::PureNoTrap`, `&[..]`) from its tiny MIR body."""
        prom = self.f.get("promoted", [])
        if n >= len(prom):
            return None
        stmts = [st for b in prom[n]["blocks"] for st in b["s"]]
        by = {st["lhs"]["l"]: st["rv"] for st in stmts if not st["lhs"]["p"]}

        def val(l, d=4):
            rv = by.get(l)
            if rv is None or d == 0:
                return ("other", "promoted")
            if rv["k"] == "ref":
                return ("ref", val(rv["of"]["l"], d - 1)) if not rv["of"]["p"] else ("other", "promoted")
            if rv["k"] == "agg":
                ops = []
                for o in rv["ops"]:
                    if "const" in o:
                        ops.append(("const", o["const"], o.get("int")))
                    else:
                        pl = o.get("copy") or o.get("move")
                        ops.append(val(pl["l"], d - 1) if pl and not pl["p"] else ("other", "?"))
                return ("agg", norm(rv["adt"]), rv["variant"], ops)
            if rv["k"] == "use" and "const" in rv["a"]:
                return ("const", rv["a"]["const"], rv["a"].get("int"))
            return ("other", "promoted")
        return val(0)

    def place_expr(self, pl, depth=12, _seen=None):
        base = self._local_expr(pl["l"], depth, _seen or frozenset())
        for e in pl["p"]:
            if e == "*":
                if base[0] == "ref":
                    base = base[1]
                else:
                    base = ("deref", base)
            elif isinstance(e, dict) and "f" in e:
                # (a op_with_overflow b).0 -> a op b
                if base[0] == "bin" and base[1].endswith("WithOverflow") and e["f"] == "0":
                    base = ("bin", base[1][: -len("WithOverflow")], base[2], base[3])
                else:
                    base = ("field", base, e["f"])
            elif isinstance(e, dict) and "as" in e:
                base = ("as", base, e["as"])
            elif isinstance(e, dict) and "idx" in e:
                base = ("index", base, self._local_expr(e["idx"], depth - 1, _seen or frozenset()))
            elif isinstance(e, dict) and "cidx" in e:
                base = ("index", base, ("const", str(e["cidx"]), e["cidx"]))
            else:
                base = ("proj", base, str(e))
        return base

    def deep(self, o_or_local, depth=14):
        """Like expr() but also expands user-named locals that have a single whole definition."""
        self._deep = True
        try:
            if isinstance(o_or_local, int):
                return self._local_expr(o_or_local, depth, frozenset())
            return self.expr(o_or_local, depth)
        finally:
            self._deep = False

    _deep = False

    def alt_exprs(self, o, depth=6, _seen=frozenset()):
        """Deep expressions of an operand, one per reaching definition when the operand is (a copy of) a
        variable assigned in several arms."""
        pl = (o.get("move") or o.get("copy")) if isinstance(o, dict) else None
        if pl is None or pl["p"] or depth <= 0 or pl["l"] in _seen:
            return [self.deep(o)]
        defs = self.whole_defs(pl["l"])
        if len(defs) == 1 and defs[0][1] != "t" and defs[0][2]["rv"]["k"] == "use":
            return self.alt_exprs(defs[0][2]["rv"]["a"], depth - 1, _seen | {pl["l"]})
        if len(defs) <= 1:
            return [self.deep(o)]
        out = []
        for (bi, kk, st) in defs:
            if kk == "t":
                out.append(("call", norm(st.get("res") or st.get("callee")) or "?", [self.deep(a) for a in st.get("args", [])], bi))
            elif st["rv"]["k"] == "use":
                out += self.alt_exprs(st["rv"]["a"], depth - 1, _seen | {pl["l"]})
            else:
                out.append(self.deep_rvalue(st["rv"]))
        return out

    def deep_rvalue(self, rv, depth=12):
        self._deep = True
        try:
            return self.rvalue_expr(rv, depth)
        finally:
            self._deep = False

    def _local_expr(self, l, depth, seen):
        name = self.locals[l]["name"]
        if name is not None and not (self._deep and len(self.whole_defs(l)) == 1 and l > self.argc and l not in seen and depth > 0):
            return ("var", name, l)
        if l <= self.argc and l > 0:
            return ("arg", l)
        if depth <= 0 or l in seen:
            return ("local", l)
        defs = self.whole_defs(l)
        if len(defs) != 1:
            return ("phi", l) if defs else ("local", l)
        bi, k, s = defs[0]
        seen = seen | {l}
        if k == "t":
            cal = norm(s.get("res") or s.get("callee")) or "<indirect>"
            return ("call", cal, [self.expr(a, depth - 1, seen) for a in s.get("args", [])], bi)
        rv = s["rv"]
        return self.rvalue_expr(rv, depth - 1, seen)

    def rvalue_expr(self, rv, depth=12, seen=frozenset()):
        kk = rv["k"]
        if kk == "use":
            return self.expr(rv["a"], depth, seen)
        if kk == "bin":
            return ("bin", rv["op"], self.expr(rv["a"], depth, seen), self.expr(rv["b"], depth, seen))
        if kk == "un":
            if rv["op"] == "PtrMetadata":
                return ("len", self.expr(rv["a"], depth, seen))
            return ("un", rv["op"], self.expr(rv["a"], depth, seen))
        if kk == "cast":
            return ("cast", self.expr(rv["a"], depth, seen), rv["ty"])
        if kk in ("ref", "rawptr"):
            return ("ref", self.place_expr(rv["of"], depth, seen))
        if kk == "discr":
            return ("discr", self.place_expr(rv["of"], depth, seen))
        if kk == "agg":
            return ("agg", norm(rv["adt"]), rv["variant"], [self.expr(a, depth, seen) for a in rv["ops"]])
        return ("other", rv.get("dbg", "?"))

    # ------------------------------------------------------------------ pretty
    def where(self, block=None):
        if block is None:
            return "%s:%d (%s)" % (self.file, self.line, self.id)
        return "%s:%d (%s bb%d)" % (self.blocks[block]["at"]["file"], self.blocks[block]["at"]["line"], self.id, block)

    def block_line(self, b):
        return self.blocks[b]["at"]["line"]

    def dump(self, lo=0, hi=10 ** 9):
        out = []
        for i, b in enumerate(self.blocks):
            if i < lo or i >= hi or i not in self.live:
                continue
            t = b["t"]
            ss = ["%s = %s" % (self.place_str(s["lhs"]), show(self.rvalue_expr(s["rv"], 0))) for s in b["s"]]
            tt = t["k"]
            if tt == "call":
                tt = "call %s(%s) -> %s => %s" % (norm(t.get("res") or t.get("callee")), ", ".join(show(self.expr(a, 0)) for a in t["args"]), self.place_str(t["dest"]), t["t"])
            elif tt == "switch":
                tt = "switch %s %s else %s" % (show(self.expr(t["d"], 0)), t["ts"], t["else"])
            elif tt in ("goto", "drop"):
                tt = "%s => %s" % (tt, t["t"])
            elif tt == "assert":
                tt = "assert %s %s => %s" % (t["kind"], [show(self.expr(a, 0)) for a in t["ops"]], t["t"])
            out.append("bb%d L%d: %s | %s" % (i, b["at"]["line"], "; ".join(ss), tt))
        return "\n".join(out)


def show(e):
    k = e[0]
    if k == "const":
        return str(e[1])
    if k == "var":
        return e[1]
    if k in ("local", "phi"):
        return "_%d" % e[1]
    if k == "arg":
        return "arg%d" % e[1]
    if k == "field":
        return show(e[1]) + "." + e[2]
    if k == "as":
        return show(e[1]) + "@" + e[2]
    if k == "deref":
        return "*" + show(e[1])
    if k == "index":
        return "%s[%s]" % (show(e[1]), show(e[2]))
    if k == "bin":
        return "%s(%s, %s)" % (e[1], show(e[2]), show(e[3]))
    if k == "un":
        return "%s(%s)" % (e[1], show(e[2]))
    if k == "len":
        return "len(%s)" % show(e[1])
    if k == "ref":
        return "&" + show(e[1])
    if k == "cast":
        return "(%s as %s)" % (show(e[1]), e[2])
    if k == "discr":
        return "discr(%s)" % show(e[1])
    if k == "call":
        return "%s(%s)" % (e[1].split("::")[-1], ", ".join(show(a) for a in e[2]))
    if k == "agg":
        return "%s::%s{%s}" % (e[1].split("::")[-1], e[2], ", ".join(show(a) for a in e[3]))
    return "?%s" % (e[1:] and e[1],)


class Program:
    """All bodies of one crate's fact document."""

    def __init__(self, doc):
        self.doc = doc
        self.fns = {}
        self.dups = []
        for f in doc["fns"]:
            fn = Fn(f)
            if fn.id in self.fns:
                # two impls with the same normalised path (e.g. generic impls): keep both under raw ids
                self.dups.append(fn.id)
                self.fns[fn.raw_id] = fn
            else:
                self.fns[fn.id] = fn
        for fn in self.fns.values():
            fn.prog = self
        self.adts = {norm(a["id"]): a for a in doc.get("adts", [])}
        self.consts = {norm(c["id"]): c for c in doc.get("consts", [])}
        self.statics = doc.get("statics", [])
        self.impls = doc.get("impls", [])
        self._cg = None

    def fn(self, fid):
        return self.fns.get(fid)

    def need(self, fid):
        f = self.fns.get(fid)
        if f is None:
            raise AnchorMissing(fid)
        return f

    def in_file(self, file):
        return [f for f in self.fns.values() if f.file == file]

    def closures_of(self, fid):
        return [f for k, f in self.fns.items() if k.startswith(fid + "::{closure")]

    def closure_sites(self, clo):
        """Where the parent body builds closure `clo`: [(parent fn, block, rvalue)]."""
        m = re.search(r"(\{closure#\d+\})$", clo.id)
        if not m or "::{closure" not in clo.id:
            return []
        par = self.fns.get(clo.id[:clo.id.rindex("::{closure")])
        out = []
        if par is not None:
            for b in sorted(par.live):
                for st in par.blocks[b]["s"]:
                    rv = st["rv"]
                    if rv["k"] == "agg" and str(rv.get("adt", "")).endswith(m.group(1)):
                        out.append((par, b, rv))
        return out

    def captured_text(self, clo, text):
        """Replace `arg1.N` (upvar N of closure `clo`) in an expression text by the parent's expression for it."""
        sites = self.closure_sites(clo)
        if not sites:
            return text
        par, b, rv = sites[0]

        def sub(mm):
            i = int(mm.group(1))
            if i < len(rv.get("ops", [])):
                return show(par.deep(rv["ops"][i])).lstrip("&")
            return mm.group(0)
        return re.sub(r"\*?arg1\.(\d+)", sub, text)

    def family(self, fid):
        """A body with its closures."""
        f = self.need(fid)
        return [f] + self.closures_of(fid)

    def callgraph(self):
        """parent-merged call graph: {fn id: {callee id: [Call,...]}} restricted to known bodies."""
        if self._cg is not None:
            return self._cg
        cg = defaultdict(lambda: defaultdict(list))
        for fid, f in self.fns.items():
            src = parent_fn(f.id)
            for c in f.calls():
                cal = c.callee
                if cal is None:
                    continue
                cg[src][cal].append(c)
                # fmt edges: Argument::new_display::<T> -> <T as Display>::fmt
                if cal in ("core::fmt::rt::Argument::new_display", "core::fmt::rt::Argument::new_debug"):
                    tr = "std::fmt::Display" if cal.endswith("display") else "std::fmt::Debug"
                    for ga in c.gargs:
                        g = norm(ga.lstrip("&"))
                        cand = "<%s as %s>::fmt" % (g, tr)
                        if cand in self.fns:
                            cg[src][cand].append(c)
            # closures are reachable from their parent
        self._cg = cg
        return cg

    def callers_of(self, callee):
        out = []
        for f in self.fns.values():
            for c in f.calls():
                if c.callee == callee or c.declared == callee:
                    out.append(c)
        return out

    def reachable_from(self, roots):
        cg = self.callgraph()
        seen = set()
        st = [r for r in roots]
        while st:
            x = st.pop()
            if x in seen:
                continue
            seen.add(x)
            for cal in cg.get(x, {}):
                if cal in self.fns or any(k.startswith(cal) for k in ()):  # only bodies we have
                    st.append(parent_fn(cal))
        return seen

    def adt(self, name):
        a = self.adts.get(name)
        if a is None:
            raise AnchorMissing("adt " + name)
        return a

    def variants(self, name):
        return [v["name"] for v in self.adt(name)["variants"]]

    def fields(self, name):
        return [f[0] for f in self.adt(name)["variants"][0]["fields"]]


# ---------------------------------------------------------------------------------------------------------------------
# Rename-invariance.  Rules read reconstructed expressions in which user variables appear by name.  A behaviour-preserving
# rename of a local (or parameter) must not change a verdict, so before any rule runs the named locals of every body are
# mapped back to the names they had when the rules were written: /verif/reference/local_roles.json stores, per body, the
# sequence of (name, name-free signature) of its named locals; if the current body has the same sequence of signatures, its
# locals are given the reference names.  If the sequence differs (the body was edited in a way that touches a named local)
# nothing is renamed and the rules see the source's own names, as before.

def _operand_shape(fn, o):
    if not isinstance(o, dict):
        return "?"
    if "const" in o:
        return "c:%s" % (o.get("int") if o.get("int") is not None else str(o.get("const"))[:24])
    pl = o.get("move") or o.get("copy")
    if pl is None:
        return "?"
    base = "a%d" % pl["l"] if 0 < pl["l"] <= fn.argc else "_"
    for e in pl["p"]:
        if e == "*":
            base = "*" + base
        elif isinstance(e, dict) and "f" in e:
            base += "." + str(e["f"])
        elif isinstance(e, dict) and "as" in e:
            base += "@" + str(e["as"])
        elif isinstance(e, dict) and "idx" in e:
            base += "[_]"
        else:
            base += "[?]"
    return base


def _def_shape(fn, k, st):
    if k == "t":
        return "call:%s(%s)" % (norm(st.get("res") or st.get("callee")) or "?", ",".join(_operand_shape(fn, a) for a in st.get("args", [])))
    rv = st["rv"]
    kk = rv["k"]
    if kk == "use":
        return "use:" + _operand_shape(fn, rv["a"])
    if kk in ("bin",):
        op = rv["op"].replace("WithOverflow", "").replace("Unchecked", "")
        return "bin:%s(%s,%s)" % (op, _operand_shape(fn, rv["a"]), _operand_shape(fn, rv["b"]))
    if kk == "un":
        return "un:%s(%s)" % (rv.get("op"), _operand_shape(fn, rv["a"]))
    if kk == "agg":
        return "agg:%s::%s/%d" % (norm(rv.get("adt")) if rv.get("adt") else "", rv.get("variant"), len(rv.get("ops", [])))
    if kk == "cast":
        return "cast:%s(%s)" % (rv.get("ty"), _operand_shape(fn, rv["a"]))
    if kk in ("ref", "rawptr"):
        return "%s:%s" % (kk, _operand_shape(fn, {"copy": rv["of"]}))
    return kk


def local_signatures(fn):
    """[(local index, name, name-free signature)] for the named locals of a body, in MIR order."""
    out = []
    defs = fn.defs()
    for i, l in enumerate(fn.locals):
        if not l.get("name"):
            continue
        if 0 < i <= fn.argc:
            out.append((i, l["name"], "arg%d:%s" % (i, l["ty"])))
            continue
        shapes = []
        for (b, k, st) in defs.get(i, []):
            pl = st["lhs"] if k != "t" else st["dest"]
            shapes.append(("part:" if pl["p"] else "") + _def_shape(fn, k, st))
        out.append((i, l["name"], "%s|%s" % (l["ty"], "|".join(sorted(shapes)))))
    return out


def apply_local_roles(prog, roles):
    """roles: {fn id: [[name, signature], ...]}.  Returns the number of locals renamed."""
    n = 0
    for fid, ref in (roles or {}).items():
        fn = prog.fns.get(fid)
        if fn is None:
            continue
        cur = local_signatures(fn)
        if len(cur) != len(ref) or any(c[2] != r[1] for c, r in zip(cur, ref)):
            continue
        for (i, name, sig), (rname, rsig) in zip(cur, ref):
            if name != rname:
                fn.locals[i] = dict(fn.locals[i], name=rname, source_name=name)
                n += 1
    return n


# ---------------------------------------------------------------------------------------------------------------------
# Transparency of new helper functions.  Rules are written about the bodies that existed when they were written (the keys of
# reference/local_roles.json).  A body that did not exist then - the result of an "extract method" refactoring, or a helper a
# change introduces - is spliced back into its callers before any rule runs, so that code moved into a helper is judged
# exactly like the same code in place.  Only small, non-recursive, closure-free helpers are inlined; two rounds.

def _remap(x, lmap, bmap, pmap):
    """Deep copy of a MIR JSON fragment with locals / block indices / promoted indices renumbered."""
    if isinstance(x, list):
        return [_remap(y, lmap, bmap, pmap) for y in x]
    if not isinstance(x, dict):
        return x
    if "l" in x and "p" in x and isinstance(x.get("l"), int):
        pl = dict(x)
        pl["l"] = lmap(x["l"])
        pl["p"] = [(dict(e, idx=lmap(e["idx"])) if isinstance(e, dict) and isinstance(e.get("idx"), int) else e) for e in x["p"]]
        return pl
    out = {}
    for k, v in x.items():
        if k == "const" and isinstance(v, str) and "promoted[" in v:
            out[k] = re.sub(r"promoted\[(\d+)\]", lambda m: "promoted[%d]" % pmap(int(m.group(1))), v)
        else:
            out[k] = _remap(v, lmap, bmap, pmap)
    return out


def _inline_one(caller_f, bi, callee_f):
    cm, km = caller_f["mir"], callee_f["mir"]
    t = cm["blocks"][bi]["t"]
    lbase = len(cm["locals"])
    bbase = len(cm["blocks"])
    pbase = len(caller_f.get("promoted", []))
    lmap = lambda l: lbase + l
    bmap = lambda b: bbase + b
    pmap = lambda n: pbase + n
    caller_f.setdefault("promoted", [])
    caller_f["promoted"] += callee_f.get("promoted", [])
    for l in km["locals"]:
        cm["locals"].append(dict(l, inlined_from=callee_f["id"]))
    at = cm["blocks"][bi]["at"]
    pre = []
    for i, a in enumerate(t.get("args", [])):
        if i + 1 <= km["argc"]:
            pre.append({"lhs": {"l": lbase + i + 1, "p": []}, "rv": {"k": "use", "a": a}, "at": at})
    for b in km["blocks"]:
        nb = {"s": [_remap(st, lmap, bmap, pmap) for st in b["s"]], "at": b.get("at", at), "cleanup": b.get("cleanup", False)}
        tt = b["t"]
        if tt["k"] == "return":
            if t.get("dest") is not None:
                nb["s"].append({"lhs": t["dest"], "rv": {"k": "use", "a": {"move": {"l": lbase, "p": []}}}, "at": at})
            nb["t"] = {"k": "goto", "t": t["t"]} if t.get("t") is not None else {"k": "unreachable"}
        else:
            nt = _remap({k: v for k, v in tt.items() if k not in ("t", "ts", "else")}, lmap, bmap, pmap)
            if "t" in tt:
                nt["t"] = bmap(tt["t"]) if tt["t"] is not None else None
            if "ts" in tt:
                nt["ts"] = [[v, bmap(x)] for v, x in tt["ts"]]
            if "else" in tt:
                nt["else"] = bmap(tt["else"])
            nb["t"] = nt
        cm["blocks"].append(nb)
    cm["blocks"][bi]["s"] = cm["blocks"][bi]["s"] + pre
    cm["blocks"][bi]["t"] = {"k": "goto", "t": bbase}


def inline_new_helpers(doc, known_ids, max_blocks=24, rounds=2):
    """doc: fact document (mutated in place).  known_ids: normalised ids of the bodies the rules know.  Returns the list of
    (caller, helper) pairs spliced."""
    done = []
    byid = {norm(f["id"]): f for f in doc["fns"]}
    new = {fid: f for fid, f in byid.items() if fid not in known_ids and "{closure" not in fid and f["at"]["file"].startswith("src/")
           and not any(k.startswith(fid + "::{closure") for k in byid)}
    if not new:
        return done

    def calls_of(f):
        return [(i, norm(b["t"].get("res") or b["t"].get("callee"))) for i, b in enumerate(f["mir"]["blocks"]) if b["t"]["k"] == "call"]
    small = {fid: f for fid, f in new.items() if len(f["mir"]["blocks"]) <= max_blocks and fid not in {c for _, c in calls_of(f)}}
    for _ in range(rounds):
        changed = False
        for cid, cf in byid.items():
            if cid in small and _ == 0:
                pass
            guard = 0
            while guard < 40:
                guard += 1
                hit = [(i, c) for i, c in calls_of(cf) if c in small and c != cid]
                if not hit:
                    break
                i, c = hit[0]
                _inline_one(cf, i, small[c])
                # the helper's name-resolved HIR tables (match arms, if conditions) now belong to the caller too
                for key in ("matches", "ifs"):
                    if small[c].get(key):
                        cf[key] = list(cf.get(key, [])) + [x for x in small[c][key] if x not in cf.get(key, [])]
                done.append((cid, c))
                changed = True
        if not changed:
            break
    return done


class AnchorMissing(Exception):
    pass


def _operand_places(o):
    if isinstance(o, dict):
        pl = o.get("copy") or o.get("move")
        if pl is not None:
            yield pl


def read_places(fn):
    """Every place read in live blocks of fn: yields (block, place)."""
    for b in sorted(fn.live):
        blk = fn.blocks[b]
        for s in blk["s"]:
            rv = s["rv"]
            for key in ("a", "b"):
                if key in rv:
                    for pl in _operand_places(rv[key]):
                        yield b, pl
            if "of" in rv:
                yield b, rv["of"]
            for o in rv.get("ops", []):
                for pl in _operand_places(o):
                    yield b, pl
        t = blk["t"]
        for o in t.get("args", []):
            for pl in _operand_places(o):
                yield b, pl
        if "d" in t:
            for pl in _operand_places(t["d"]):
                yield b, pl
        for o in t.get("ops", []):
            for pl in _operand_places(o):
                yield b, pl


def fields_read(fn, of_type_suffix):
    """Names of fields projected out of a value whose ADT type ends with `of_type_suffix`."""
    out = {}
    for b, pl in read_places(fn):
        for e in pl["p"]:
            if isinstance(e, dict) and "f" in e and norm(e.get("of", "")).lstrip("&").endswith(of_type_suffix):
                out.setdefault(e["f"], []).append(b)
    return out


def statics_used(fn):
    """Def paths of static items whose address is taken in the body."""
    import json as _json
    return {norm(m) for m in re.findall(r'"static": "([^"]+)"', _json.dumps(fn.m["blocks"]))}

"""Backward liveness of MIR locals (whole-local granularity), used by C02-R6.

A local is *used* by: every operand that copies/moves from a place rooted at it, every place projection that indexes with
it, every borrow of a place rooted at it, a store *through* it (`(*l).f = ..`), switch scrutinees, call arguments, assert
conditions.  StorageDead, Drop terminators and `_ = move l` into nothing are not uses (the value is only destroyed).
A local is *defined* (killed) by a statement or call that assigns the whole local."""


def _operand_locals(o, out):
    if not isinstance(o, dict):
        return
    pl = o.get("move") or o.get("copy")
    if pl is not None:
        _place_locals(pl, out)


def _place_locals(pl, out):
    out.add(pl["l"])
    for e in pl["p"]:
        if isinstance(e, dict) and isinstance(e.get("idx"), int):
            out.add(e["idx"])


def stmt_uses_defs(s):
    uses, defs = set(), set()
    rv = s["rv"]
    for key in ("a", "b"):
        if key in rv:
            _operand_locals(rv[key], uses)
    if "of" in rv and isinstance(rv["of"], dict):
        _place_locals(rv["of"], uses)
    for o in rv.get("ops", []):
        _operand_locals(o, uses)
    lhs = s["lhs"]
    if lhs["p"]:
        _place_locals(lhs, uses)      # a store through / into part of the local keeps the rest of it alive
    else:
        defs.add(lhs["l"])
    return uses, defs


def term_uses_defs(t):
    uses, defs = set(), set()
    k = t["k"]
    if k == "call":
        for o in t.get("args", []):
            _operand_locals(o, uses)
        if isinstance(t.get("f"), dict):
            _operand_locals(t["f"], uses)
        d = t.get("dest")
        if d is not None:
            if d["p"]:
                _place_locals(d, uses)
            else:
                defs.add(d["l"])
    elif k == "switch":
        _operand_locals(t["d"], uses)
    elif k == "assert":
        for o in t.get("ops", []):
            _operand_locals(o, uses)
        if "cond" in t:
            _operand_locals(t["cond"], uses)
    elif k == "return":
        uses.add(0)
    return uses, defs


def liveness(fn):
    """Returns (live_in, live_out): dicts block -> frozenset(locals)."""
    blocks = sorted(fn.live)
    gen, kill = {}, {}
    for b in blocks:
        g, kl = set(), set()
        tu, td = term_uses_defs(fn.blocks[b]["t"])
        # backwards through the block: terminator first
        g |= tu
        kl |= td
        for s in reversed(fn.blocks[b]["s"]):
            u, d = stmt_uses_defs(s)
            g -= d
            kl |= d
            g |= u
        gen[b], kill[b] = g, kl
    live_in = {b: set() for b in blocks}
    live_out = {b: set() for b in blocks}
    changed = True
    while changed:
        changed = False
        for b in reversed(blocks):
            out = set()
            for _, j in fn.succ[b]:
                if j in live_in:
                    out |= live_in[j]
            # a call's destination is defined on the edge to its target: it is not live *across* the call
            t = fn.blocks[b]["t"]
            inn = gen[b] | (out - kill[b])
            if out != live_out[b] or inn != live_in[b]:
                live_out[b], live_in[b] = out, inn
                changed = True
    return live_in, live_out


def live_across_call(fn, b, live_out=None):
    """Locals whose value is held while the call terminating block b runs: live after the call, not defined by it, and not
    merely passed into it by move."""
    if live_out is None:
        _, live_out = liveness(fn)
    t = fn.blocks[b]["t"]
    out = set(live_out[b])
    d = t.get("dest")
    if d is not None and not d["p"]:
        out.discard(d["l"])
    return out

"""Native frame sizes of /repo's functions, as reported by the code generator (`-Z emit-stack-sizes`).

Static: the numbers are read from the `.stack_sizes` section LLVM writes into the object files; nothing is executed.
The build goes to a cache directory outside /repo; the objects are unpacked into a temporary directory that is removed
before returning."""
import glob
import json
import os
import re
import shutil
import subprocess
import tempfile

from . import facts as factsmod


def _strip_generics(s):
    out, d, i = [], 0, 0
    while i < len(s):
        if s.startswith("::<", i) and d == 0:
            # skip a balanced ::<...>
            j, dd = i + 3, 1
            while j < len(s) and dd:
                if s[j] == "<":
                    dd += 1
                elif s[j] == ">" and s[j - 1] != "-":
                    dd -= 1
                j += 1
            i = j
            continue
        out.append(s[i])
        i += 1
    return "".join(out)


def _canon(p):
    p = re.sub(r"\b(core|alloc)::", "std::", p)
    return p


def normalise(dem, crate="naijascript"):
    """Demangled v0 symbol -> the def-path form used by the fact files (crate-relative, generics dropped)."""
    s = _strip_generics(dem)
    s = s.replace(crate + "::", "")
    m = re.match(r"^<([^<>]*?)>::(.*)$", s)
    if m and " as " not in m.group(1):
        s = m.group(1) + "::" + m.group(2)
    s = re.sub(r"<[^<>]*>", lambda mm: mm.group(0) if " as " in mm.group(0) else "", s) if s.count("<") > 1 else s
    return _canon(s)


def collect(repo=None, release=False):
    """Returns ({normalised name: max frame bytes over instances}, {raw demangled: bytes}, meta)."""
    repo = repo or factsmod.REPO
    th = factsmod.tree_hash(repo)
    cache_file = os.path.join(factsmod.CACHE, "facts", th, "frames-%s.json" % ("release" if release else "dev"))
    if os.path.exists(cache_file):
        with open(cache_file) as fh:
            d = json.load(fh)
        return d["sizes"], d["raw"], d["meta"]
    target = os.path.join(factsmod.CACHE, "target-ss")
    os.makedirs(target, exist_ok=True)
    # cargo does not refresh the uplifted copy of a fresh artifact: remove it so that the file read below is the one
    # produced (or re-linked) for *this* tree
    for f in glob.glob(os.path.join(target, "release" if release else "debug", "libnaijascript*.rlib")) + [f for f in glob.glob(os.path.join(target, "release" if release else "debug", "deps", "naija-*")) if os.path.isfile(f) and "." not in os.path.basename(f)]:
        os.remove(f)
    fp = os.path.join(target, "release" if release else "debug", ".fingerprint")
    if os.path.isdir(fp):
        for dd in os.listdir(fp):
            if dd.startswith("naijascript-") or dd.startswith("naija-"):
                shutil.rmtree(os.path.join(fp, dd), ignore_errors=True)
    env = dict(os.environ, CARGO_TARGET_DIR=target, CARGO_NET_OFFLINE="true",
               RUSTFLAGS="-Z emit-stack-sizes -C symbol-mangling-version=v0 -Awarnings")
    env.pop("RUSTC_WRAPPER", None)
    env.pop("RUSTC_WORKSPACE_WRAPPER", None)
    cmd = ["cargo", "+nightly", "build", "--offline", "-p", "naijascript", "--lib", "--bins", "--message-format=json"]
    if release:
        cmd.append("--release")
    r = subprocess.run(cmd, cwd=repo, env=env, capture_output=True, text=True)
    if r.returncode != 0:
        raise factsmod.MachineryError("stack-size build failed:\n" + r.stderr[-3000:])
    rlib = None
    for line in r.stdout.splitlines():
        try:
            msg = json.loads(line)
        except ValueError:
            continue
        if msg.get("reason") == "compiler-artifact" and msg.get("target", {}).get("name") == "naijascript" and "lib" in msg["target"].get("kind", []):
            for f in msg.get("filenames", []):
                if f.endswith(".rlib"):
                    rlib = f
    if rlib is None or not os.path.exists(rlib):
        raise factsmod.MachineryError("stack-size build produced no rlib")
    # the binary crate's own objects stay next to the linked executable
    bin_objs = [f for f in glob.glob(os.path.join(target, "release" if release else "debug", "deps", "naija-*")) if "." not in os.path.basename(f) and os.path.isfile(f)]
    bin_objs = sorted(bin_objs, key=os.path.getmtime)[-1:]      # the executable just linked (its .stack_sizes survives the link)
    sysroot = subprocess.check_output(["rustc", "+nightly", "--print", "sysroot"], text=True).strip()
    host = subprocess.check_output(["rustc", "+nightly", "-vV"], text=True)
    host = re.search(r"host: (\S+)", host).group(1)
    readobj = os.path.join(sysroot, "lib", "rustlib", host, "bin", "llvm-readobj")
    ar = os.path.join(sysroot, "lib", "rustlib", host, "bin", "llvm-ar")
    tmp = tempfile.mkdtemp(prefix="nsv-ss-")
    try:
        subprocess.run([ar, "x", rlib], cwd=tmp, check=True, capture_output=True)
        objs = sorted(glob.glob(os.path.join(tmp, "*.o")))
        if not objs:
            raise factsmod.MachineryError("no objects in %s" % rlib)
        out = subprocess.run([readobj, "--stack-sizes", "--demangle"] + objs, capture_output=True, text=True)
        if out.returncode != 0:
            raise factsmod.MachineryError("llvm-readobj failed: " + out.stderr[-1000:])
        out_bin = subprocess.run([readobj, "--stack-sizes", "--demangle"] + bin_objs, capture_output=True, text=True) if bin_objs else None
    finally:
        shutil.rmtree(tmp, ignore_errors=True)
    raw, fn = {}, None
    for l in out.stdout.splitlines():
        m = re.match(r"\s*Functions: \[(.*)\]", l)
        if m:
            fn = m.group(1)
            continue
        m = re.match(r"\s*Size: (0x[0-9A-Fa-f]+)", l)
        if m and fn is not None:
            for name in fn.split(", ") if ", <" not in fn and ", " in fn and "<" not in fn else [fn]:
                raw[name] = max(raw.get(name, 0), int(m.group(1), 16))
            fn = None
    sizes = {}
    for name, sz in raw.items():
        k = normalise(name)
        sizes[k] = max(sizes.get(k, 0), sz)
    # frames of the binary crate, keyed "bin:<path>" (crate prefix `naija::` dropped)
    if out_bin is not None and out_bin.returncode == 0:
        fnm = None
        for l in out_bin.stdout.splitlines():
            m = re.match(r"\s*Functions: \[(.*)\]", l)
            if m:
                fnm = m.group(1)
                continue
            m = re.match(r"\s*Size: (0x[0-9A-Fa-f]+)", l)
            if m and fnm is not None:
                if fnm.startswith("naija::") or fnm.startswith("<naija::"):
                    k = "bin:" + normalise(fnm, crate="naija")
                    sizes[k] = max(sizes.get(k, 0), int(m.group(1), 16))
                fnm = None
    meta = dict(objects=len(objs), functions=len(raw), rlib=os.path.basename(rlib), profile="release" if release else "dev", tree_hash=th)
    if os.path.isdir(os.path.dirname(cache_file)):
        tmpf = cache_file + ".tmp%d" % os.getpid()
        with open(tmpf, "w") as fh:
            json.dump(dict(sizes=sizes, raw=raw, meta=meta), fh)
        os.rename(tmpf, cache_file)
    return sizes, raw, meta
